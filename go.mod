module verif

go 1.25.0

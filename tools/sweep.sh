#!/bin/bash
# tools/sweep.sh <tier> <seed> [props...] : run checks sequentially, validate evidence, summarise
tier=${1:-quick}; seed=${2:-1}; shift 2
props=${@:-C01 C02 C03 C04 C05 C06 C07 C08 C09 C10 C11 C12 C13 C14 C15 C16 C17 C18 C19 C20}
root=$(cd "$(dirname "$0")/.." && pwd)
cd "$root"
export PV_VERIF_ROOT="$root"
[ -x bin/pv ] || GOFLAGS=-mod=mod GOPROXY=off go build -o bin/pv ./engine/cmd/pv
for p in $props; do
  s=$(date +%s)
  out=$(VERIF_SEED=$seed ./bin/pv check $p --tier $tier 2>&1); rc=$?
  e=$(date +%s)
  v=$(python3-vt -c "
import json,jsonschema,sys
try:
    jsonschema.validate(json.load(open('$root/evidence/$p.json')),json.load(open('/root/.vp/EVIDENCE.schema.json'))); print('evidence-ok')
except Exception as ex: print('EVIDENCE-INVALID', str(ex)[:200])")
  echo "$p rc=$rc $((e-s))s $v | $(echo "$out" | grep -v '^KNOWN' | tail -1 | cut -c1-200)"
  echo "$out" | grep "^VIOLATION\|^BROKEN\|^  class" | head -5
done

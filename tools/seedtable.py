#!/usr/bin/env python3
"""Rewrites the seeded-break table in DESIGN.md (between the SEEDS markers) from seeded/*/meta.json."""
import json,glob,re
rows=[]
for f in sorted(glob.glob('/verif/seeded/*/meta.json')):
    m=json.load(open(f))
    rows.append(m)
def line(m):
    cb=", ".join(m.get('caught_by',[])) or "-"
    fs=m.get('first_shot','?')
    return f"| {m['id']} | {m['property']} | {m.get('needs','')[:230]} | {cb} | {fs} |"
agent=[m for m in rows if not m['id'].startswith('R-')]
rev=[m for m in rows if m['id'].startswith('R-')]
n=len(agent); miss=sum(1 for m in agent if m.get('first_shot')=='missed'); caught_now=sum(1 for m in agent if m.get('caught_by'))
out=["<!-- SEEDS:BEGIN -->",
f"{n} changes written by independent sub-agents are kept (17 waves; each agent saw one property's text and its own scratch worktree, nothing of /verif), plus {len(rev)} reverts of my own fix commits. "
f"Each kept change was confirmed by me in a scratch worktree: it applies, the tree builds, the whole existing suite passes, its demonstration fails with the change (and passed for the agent without it). "
f"First shot (the check as it was when the change arrived): {n-miss} of {n} caught, {miss} missed; every miss led to a strengthening of the workload (column in seeded/<id>/meta.json), after which {caught_now} of {n} are caught by the quick tier. "
"",
"",
"| id | property | what it needs to manifest | caught by (quick tier) | first shot |",
"|----|----------|---------------------------|------------------------|------------|"]
out+= [line(m) for m in agent]+[line(m) for m in rev]
out.append("<!-- SEEDS:END -->")
p='/verif/DESIGN.md'
s=open(p).read()
block="\n".join(out)
if "<!-- SEEDS:BEGIN -->" in s:
    s=re.sub(r"<!-- SEEDS:BEGIN -->.*<!-- SEEDS:END -->", lambda _: block, s, flags=re.S)
else:
    s=s.rstrip()+"\n\n---------------------------------------------------------------------------------------------\n\n## 11. Seeded breaks: which checks catch which changes\n\n"+block+"\n"
open(p,'w').write(s)
print(n,miss,caught_now)

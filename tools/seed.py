#!/usr/bin/env python3
"""Seeded-break tooling.
  seed.py import <agent_out_dir> <seed_id> <property>   copy patch/demo/notes into /verif/seeded/<seed_id>, derive core.diff
  seed.py run <seed_id> <check> [<check>...]            apply core.diff to /repo, regenerate artifacts, run the quick checks, revert
  seed.py refresh <seed_id>                             rewrite patch.diff as the full diff against /repo HEAD (core + regenerated files)
"""
import json, os, subprocess, sys, shutil, re, time

V = "/verif"; R = "/repo"
ENV = dict(os.environ, GOFLAGS="-mod=mod", GOPROXY="off")

def sh(cmd, **kw):
    return subprocess.run(cmd, shell=True, text=True, errors="replace", capture_output=True, env=ENV, **kw)

def artifacts():
    out = sh(f"cd {V} && python3 tools/artifacts.py").stdout.split()
    return out

GENERATED = None
def is_generated(path):
    global GENERATED
    if GENERATED is None:
        GENERATED = set(open(f"{V}/tools/artifacts.txt").read().split())
    return path in GENERATED or path == "go.sum"

def split_patch(text):
    """split a git diff into per-file chunks"""
    parts = re.split(r'(?m)^(?=diff --git )', text)
    return [p for p in parts if p.startswith("diff --git ")]

def core_of(text):
    keep = []
    for ch in split_patch(text):
        m = re.match(r'diff --git a/(\S+) b/(\S+)', ch)
        if m and not is_generated(m.group(2)):
            keep.append(ch)
    return "".join(keep)

def clean_repo():
    st = sh(f"git -C {R} status --porcelain").stdout
    if st.strip():
        sh(f"git -C {R} checkout -- . && git -C {R} clean -fdq")

def cmd_import(src, sid, prop):
    d = f"{V}/seeded/{sid}"
    os.makedirs(d, exist_ok=True)
    text = open(f"{src}/patch.diff").read()
    open(f"{d}/patch.diff", "w").write(text)
    open(f"{d}/core.diff", "w").write(core_of(text))
    if os.path.isdir(f"{src}/demo"):
        shutil.rmtree(f"{d}/demo", ignore_errors=True)
        shutil.copytree(f"{src}/demo", f"{d}/demo")
    if os.path.exists(f"{src}/NOTES.md"):
        shutil.copy(f"{src}/NOTES.md", f"{d}/NOTES.md")
    meta = {"id": sid, "property": prop, "source": "independent sub-agent given only the property text and a scratch worktree",
            "needs": "", "ran": [], "caught_by": []}
    if os.path.exists(f"{d}/meta.json"):
        meta.update(json.load(open(f"{d}/meta.json")))
    json.dump(meta, open(f"{d}/meta.json", "w"), indent=1)
    print("imported", sid, "core files:", re.findall(r'diff --git a/(\S+)', open(f"{d}/core.diff").read()))

def apply_core(sid):
    d = f"{V}/seeded/{sid}"
    clean_repo()
    r = sh(f"git -C {R} apply --whitespace=nowarn {d}/core.diff")
    if r.returncode != 0:
        r = sh(f"git -C {R} apply --3way --whitespace=nowarn {d}/core.diff")
        if r.returncode != 0:
            print("APPLY FAILED", r.stderr[:2000]); clean_repo(); return False
        sh(f"git -C {R} reset -q")
    r = sh(f"cd {V} && ./bin/pv regen --write")
    if "errors" in r.stdout and not re.search(r" 0 errors", r.stdout):
        print("REGEN problems:", r.stdout[-1500:])
    return True

def cmd_run(sid, checks):
    d = f"{V}/seeded/{sid}"
    if not apply_core(sid):
        return 1
    meta = json.load(open(f"{d}/meta.json"))
    try:
        b = sh(f"cd {R} && go build ./... 2>&1 | tail -5")
        if b.stdout.strip():
            print("BUILD OUTPUT:", b.stdout)
        for chk in checks:
            t0 = time.time()
            r = sh(f"cd {V} && ./bin/pv check {chk} --tier quick")
            out = r.stdout + r.stderr
            open(f"{d}/run-{chk}.txt", "w").write(out)
            viol = [l for l in out.splitlines() if l.startswith("VIOLATION")]
            detail = [l for l in out.splitlines() if l.startswith("  class=")]
            verdict = "CAUGHT" if (r.returncode == 1 and viol) else ("BROKEN" if r.returncode not in (0, 1) else "missed")
            print(f"{sid} {chk}: {verdict} exit={r.returncode} {time.time()-t0:.0f}s")
            for l in detail[:3]:
                print("   ", l[:400])
            meta["ran"] = [x for x in meta.get("ran", []) if not x.startswith(chk + ":")] + [f"{chk}: pv check {chk} --tier quick -> {verdict} (exit {r.returncode})"]
            cb = set(meta.get("caught_by", []))
            if verdict == "CAUGHT": cb.add(chk)
            else: cb.discard(chk)
            meta["caught_by"] = sorted(cb)
    finally:
        clean_repo()
        shutil.rmtree(f"{V}/replays", ignore_errors=True)
    json.dump(meta, open(f"{d}/meta.json", "w"), indent=1)

def cmd_refresh(sid):
    """rewrite patch.diff as the full diff against /repo HEAD (hand-written change + everything it makes
    regenerate), in a private scratch worktree - /repo itself is never touched"""
    d = f"{V}/seeded/{sid}"
    wt = f"/tmp/seedrf-{sid}"
    sh(f"git -C {R} worktree remove --force {wt}")
    r = sh(f"git -C {R} worktree add --detach {wt} HEAD")
    if r.returncode != 0:
        print(r.stderr); return 1
    env = dict(ENV, PV_REPO=wt)
    meta = json.load(open(f"{d}/meta.json"))
    try:
        if meta.get("apply_full"):
            r = sh(f"git -C {wt} apply --whitespace=nowarn {d}/patch.diff")
            if r.returncode != 0:
                print(sid, "APPLY FAILED", r.stderr[:800]); return 1
        else:
            r = sh(f"git -C {wt} apply --whitespace=nowarn {d}/core.diff")
            if r.returncode != 0:
                r = sh(f"git -C {wt} apply --3way --whitespace=nowarn {d}/core.diff")
                if r.returncode != 0:
                    print(sid, "APPLY FAILED", r.stderr[:800]); return 1
                sh(f"git -C {wt} reset -q")
            rr = subprocess.run(f"cd {V} && ./bin/pv regen --write", shell=True, text=True, errors="replace", capture_output=True, env=env)
            if not re.search(r" 0 errors", rr.stdout):
                print(sid, "REGEN problems:", rr.stdout[-600:])
        sh(f"git -C {wt} checkout -- go.sum")
        diff = sh(f"git -C {wt} diff").stdout
        open(f"{d}/patch.refreshed.diff", "w").write(diff)
        sh(f"git -C {wt} checkout -- . && git -C {wt} clean -fdq")
        chk = sh(f"git -C {wt} apply --check {d}/patch.refreshed.diff")
        print("refreshed", sid, "files:", len(split_patch(diff)), "apply-check:", chk.returncode)
    finally:
        sh(f"git -C {R} worktree remove --force {wt}")
        sh(f"rm -rf {wt}")

def cmd_wt(sid, checks, verify=True):
    """run in a private scratch worktree (parallel-safe): verify suite+demo, then the checks"""
    d = f"{V}/seeded/{sid}"
    wt = f"/tmp/seedwt-{sid}"
    sh(f"git -C {R} worktree remove --force {wt}")
    r = sh(f"git -C {R} worktree add --detach {wt} HEAD")
    if r.returncode != 0:
        print(r.stderr); return 1
    env = dict(ENV, PV_REPO=wt)
    meta = json.load(open(f"{d}/meta.json"))
    try:
        if verify and os.path.exists(f"{d}/demo/run.sh"):
            dr = subprocess.run(f"cd {d}/demo && WT={wt} bash run.sh {wt}", shell=True, text=True, errors="replace", capture_output=True, env=env)
            meta["demo_without_change"] = "passes (exit 0)" if dr.returncode == 0 else "FAILS ON THE CLEAN TREE (exit %d)" % dr.returncode
            sh(f"git -C {wt} checkout -- . && git -C {wt} clean -fdq")
            print(f"{sid}: demo on the clean tree: {meta['demo_without_change']}")
        if meta.get("apply_full"):
            # the change is about WHICH files were (not) regenerated: apply the agent's patch as it is
            r = sh(f"git -C {wt} apply --whitespace=nowarn {d}/patch.diff")
            if r.returncode != 0:
                print(sid, "APPLY FAILED", r.stderr[:1500]); return 1
        else:
            r = sh(f"git -C {wt} apply --whitespace=nowarn {d}/core.diff")
            if r.returncode != 0:
                r = sh(f"git -C {wt} apply --3way --whitespace=nowarn {d}/core.diff")
                if r.returncode != 0:
                    print(sid, "APPLY FAILED", r.stderr[:1500]); return 1
                sh(f"git -C {wt} reset -q")
            r = subprocess.run(f"cd {V} && ./bin/pv regen --write", shell=True, text=True, errors="replace", capture_output=True, env=env)
            if not re.search(r" 0 errors", r.stdout):
                print(sid, "REGEN problems:", r.stdout[-1500:])
        if verify:
            t = subprocess.run(f"cd {wt} && go build ./... && go test -vet=off -count=1 ./... 2>&1 | grep -v '^ok\\|no test files' | head -20", shell=True, text=True, errors="replace", capture_output=True, env=env)
            suite_ok = (t.stdout.strip() == "" and t.returncode == 0)
            meta["suite_with_change"] = "pass" if suite_ok else "FAIL: " + (t.stdout + t.stderr)[:500]
            demo = "n/a"
            if os.path.exists(f"{d}/demo/run.sh"):
                dr = subprocess.run(f"cd {d}/demo && WT={wt} bash run.sh {wt}", shell=True, text=True, errors="replace", capture_output=True, env=env)
                demo = "fails (exit %d)" % dr.returncode if dr.returncode != 0 else "PASSES (demo does not show the break)"
            meta["demo_with_change"] = demo
            print(f"{sid}: suite={meta['suite_with_change'][:60]} demo={demo}")
        for chk in checks:
            t0 = time.time()
            r = subprocess.run(f"cd {V} && PV_NOEVIDENCE=1 ./bin/pv check {chk} --tier quick", shell=True, text=True, errors="replace", capture_output=True, env=env)
            out = r.stdout + r.stderr
            open(f"{d}/run-{chk}.txt", "w").write(out)
            viol = [l for l in out.splitlines() if l.startswith("VIOLATION")]
            detail = [l for l in out.splitlines() if l.startswith("  class=")]
            verdict = "CAUGHT" if (r.returncode == 1 and viol) else ("BROKEN" if r.returncode not in (0, 1) else "missed")
            print(f"{sid} {chk}: {verdict} exit={r.returncode} {time.time()-t0:.0f}s")
            for l in detail[:3]:
                print("   ", l[:300])
            if verdict == "BROKEN":
                print(out[-800:])
            meta["ran"] = [x for x in meta.get("ran", []) if not x.startswith(chk + ":")] + [f"{chk}: pv check {chk} --tier quick -> {verdict} (exit {r.returncode})"]
            cb = set(meta.get("caught_by", []))
            if verdict == "CAUGHT": cb.add(chk)
            else: cb.discard(chk)
            meta["caught_by"] = sorted(cb)
    finally:
        sh(f"git -C {R} worktree remove --force {wt}")
        sh(f"rm -rf {wt}")
    json.dump(meta, open(f"{d}/meta.json", "w"), indent=1)

if __name__ == "__main__":
    a = sys.argv[1:]
    if a[0] == "import": cmd_import(a[1], a[2], a[3])
    elif a[0] == "run": sys.exit(cmd_run(a[1], a[2:]) or 0)
    elif a[0] == "refresh": cmd_refresh(a[1])
    elif a[0] == "wt": sys.exit(cmd_wt(a[1], a[2:]) or 0)
    elif a[0] == "wtq": sys.exit(cmd_wt(a[1], a[2:], verify=False) or 0)

// Package batch builds pigeon from /repo's working tree, generates parsers with it, assembles
// scratch Go modules of generated parser packages (each with an in-package harness) and runs
// them as child processes.
package batch

import (
	"bufio"
	"bytes"
	"context"
	"encoding/json"
	"fmt"
	"os"
	"os/exec"
	"path/filepath"
	"strings"
	"sync"
	"syscall"
	"text/template"
	"time"

	"verif/engine/mon"
)

// Repo is the tree under test: /repo, unless PV_REPO names a scratch worktree (used only while
// trying seeded breaks in parallel; registered commands never set it).
var Repo = func() string {
	if r := os.Getenv("PV_REPO"); r != "" {
		return r
	}
	return "/repo"
}()

// VerifRoot is /verif (PV_VERIF_ROOT redirects evidence/replays of background sweeps that run from a
// snapshot; registered commands never set it). The warm build cache is always read from /verif.
var VerifRoot = func() string {
	if r := os.Getenv("PV_VERIF_ROOT"); r != "" {
		return r
	}
	return "/verif"
}()

// Workspace is a private scratch directory, removed by Close.
type Workspace struct {
	Dir     string
	Pigeon  string // plain binary
	PigeonH string // binary built with -tags verif (hooks), built on demand
	env     []string
	mu      sync.Mutex
	nbatch  int
}

func goEnv(extra ...string) []string {
	env := []string{}
	for _, e := range os.Environ() {
		k := e
		if i := strings.IndexByte(e, '='); i >= 0 {
			k = e[:i]
		}
		switch k {
		case "GOFLAGS", "GOPROXY", "GOSUMDB", "GOTOOLCHAIN", "GOCACHE", "TMPDIR", "GORACE", "GOMAXPROCS", "GOMEMLIMIT":
			continue
		}
		env = append(env, e)
	}
	env = append(env, "GOFLAGS=-mod=mod", "GOPROXY=off")
	return append(env, extra...)
}

// NewWorkspace creates the scratch dir and builds pigeon from the current working tree.
func NewWorkspace() (*Workspace, error) {
	base := os.Getenv("PV_TMP")
	if base == "" {
		base = os.TempDir()
	}
	dir, err := os.MkdirTemp(base, "pv-")
	if err != nil {
		return nil, err
	}
	w := &Workspace{Dir: dir}
	os.MkdirAll(filepath.Join(dir, "tmp"), 0o755)
	// private build cache seeded (hard links) from the warm base cache built by setup
	cache := filepath.Join(dir, "gocache")
	baseCache := filepath.Join("/verif", ".cache", "base")
	if _, err := os.Stat(baseCache); err == nil {
		if out, err := exec.Command("cp", "-al", baseCache, cache).CombinedOutput(); err != nil {
			os.RemoveAll(cache)
			if out2, err2 := exec.Command("cp", "-a", baseCache, cache).CombinedOutput(); err2 != nil {
				fmt.Fprintf(os.Stderr, "warning: cannot seed build cache: %s %s\n", out, out2)
				os.RemoveAll(cache)
			}
		}
	}
	os.MkdirAll(cache, 0o755)
	w.env = goEnv("GOCACHE="+cache, "TMPDIR="+filepath.Join(dir, "tmp"))
	w.Pigeon = filepath.Join(dir, "pigeon")
	if err := w.buildRepo(w.Pigeon, ""); err != nil {
		w.Close()
		return nil, err
	}
	return w, nil
}

func (w *Workspace) buildRepo(out, tags string) error {
	args := []string{"build", "-o", out}
	if tags != "" {
		args = append(args, "-tags", tags)
	}
	args = append(args, ".")
	cmd := exec.Command("go", args...)
	cmd.Dir = Repo
	cmd.Env = w.env
	b, err := cmd.CombinedOutput()
	if err != nil {
		return fmt.Errorf("building pigeon from %s failed: %v\n%s", Repo, err, b)
	}
	return nil
}

// BuildTool builds another main package of the repo (e.g. ./bootstrap/cmd/bootstrap-pigeon).
func (w *Workspace) BuildTool(pkg, name, tags string) (string, error) {
	out := filepath.Join(w.Dir, name)
	args := []string{"build", "-o", out}
	if tags != "" {
		args = append(args, "-tags", tags)
	}
	args = append(args, pkg)
	cmd := exec.Command("go", args...)
	cmd.Dir = Repo
	cmd.Env = w.env
	b, err := cmd.CombinedOutput()
	if err != nil {
		return "", fmt.Errorf("building %s failed: %v\n%s", pkg, err, b)
	}
	return out, nil
}

// Hooked returns the pigeon binary built with -tags verif.
func (w *Workspace) Hooked() (string, error) {
	w.mu.Lock()
	defer w.mu.Unlock()
	if w.PigeonH != "" {
		return w.PigeonH, nil
	}
	p := filepath.Join(w.Dir, "pigeon-verif")
	if err := w.buildRepo(p, "verif"); err != nil {
		return "", err
	}
	w.PigeonH = p
	return p, nil
}

// Env returns the environment for go commands in this workspace.
func (w *Workspace) Env() []string { return w.env }

// Close removes the workspace.
func (w *Workspace) Close() {
	if os.Getenv("PV_KEEP") != "" {
		fmt.Fprintln(os.Stderr, "keeping workspace", w.Dir)
		return
	}
	// module cache style read-only files do not occur here, plain removal suffices
	os.RemoveAll(w.Dir)
}

// GenResult is the outcome of one pigeon run.
type GenResult struct {
	Exit   int
	Stdout []byte
	Stderr string
	CPU    time.Duration
	Killed bool
}

// RunPigeon runs a pigeon binary with the grammar on stdin.
func (w *Workspace) RunPigeon(bin string, grammar []byte, timeout time.Duration, env []string, args ...string) GenResult {
	ctx, cancel := context.WithTimeout(context.Background(), timeout)
	defer cancel()
	cmd := exec.CommandContext(ctx, bin, args...)
	cmd.Stdin = bytes.NewReader(grammar)
	var so, se bytes.Buffer
	cmd.Stdout = &so
	cmd.Stderr = &se
	cmd.Env = append(append([]string{}, w.env...), env...)
	cmd.Dir = filepath.Join(w.Dir, "tmp")
	err := cmd.Run()
	r := GenResult{Stdout: so.Bytes(), Stderr: se.String()}
	if cmd.ProcessState != nil {
		r.Exit = cmd.ProcessState.ExitCode()
		r.CPU = cmd.ProcessState.UserTime() + cmd.ProcessState.SystemTime()
	}
	if ctx.Err() != nil {
		r.Killed = true
		r.Exit = -1
	} else if err != nil && cmd.ProcessState == nil {
		r.Exit = -2
		r.Stderr += err.Error()
	}
	return r
}

// Gen generates a parser from grammar text with the plain binary.
func (w *Workspace) Gen(grammar string, flags ...string) GenResult {
	return w.RunPigeon(w.Pigeon, []byte(grammar), 60*time.Second, nil, flags...)
}

// Pkg is one generated parser package of a batch.
type Pkg struct {
	Name      string
	Src       []byte // generated parser
	Optimized bool   // generated with -optimize-parser
	HasState  bool   // c.state exists: grammar has state blocks or not optimized
	HasMemo   bool   // p.memo exists: left recursion present or not optimized
	Extra     map[string][]byte
	InitInput []byte // parsed once while the package's variables are being initialised (see verifInitRes)
}

// Batch is a scratch module of packages plus main.
type Batch struct {
	W       *Workspace
	Dir     string
	Pkgs    []*Pkg
	Race    bool
	Bin     string
	BuildS  float64
	Timeout int // per-case watchdog seconds
}

const harnessTmpl = `package {{.Name}}

import (
	"bytes"
	"fmt"
	"io"
	"os"
	"sync"
	"testing/iotest"

	"vb/mon"
)

var _ = bytes.NewReader

// verifReader hands the input to ParseReader through readers with different, legal behaviours:
// all at once, the last bytes together with io.EOF, one byte per Read, half of the request per Read.
func verifReader(in []byte) io.Reader {
	r := io.Reader(bytes.NewReader(in))
	switch len(in) % 4 {
	case 1:
		return iotest.DataErrReader(r)
	case 2:
		return iotest.OneByteReader(r)
	case 3:
		return iotest.HalfReader(r)
	}
	return r
}
{{if not .Optimized}}
// verifReusedStats: one Stats value that a program hands to every Parse call (sequential use only).
var verifReusedStats Stats
{{end}}

func init() { mon.Register("{{.Name}}", verifRun) }

// Option values built once and kept by the program, handed to many calls (also concurrent ones).
var (
	verifKeptAllow     = AllowInvalidUTF8(true)
	verifKeptNoRecover = Recover(false)
{{if not .Optimized}}	verifKeptMemo      = Memoize(true)
{{end}}	verifKeptBudgets   sync.Map // n -> Option
)

func verifKeptBudget(n uint64) Option {
	if o, ok := verifKeptBudgets.Load(n); ok {
		return o.(Option)
	}
	o, _ := verifKeptBudgets.LoadOrStore(n, MaxExpressions(n))
	return o.(Option)
}

// verifGS: a helper of the user's package through which code blocks reach the globalStore without
// spelling the field's name (IndirectGlobal grammars).
func verifGS(x *current) map[string]any { return x.globalStore }

// verifNested: a nested call of the package's own Parse whose error a code block hands on as it is
// (the dynamic type of that error is the parser's own error list).
func verifNested() error {
	_, err := Parse("nested.txt", nil, Entrypoint("VerifNoSuchRule"))
	return err
}

var _ = os.Stdout

// verifSharedOpts: option values built once and handed to many (concurrent) Parse calls, as a
// program that keeps its options in a package-level variable does. All of them are neutral.
var verifSharedOpts = []Option{Entrypoint(""), Recover(true), AllowInvalidUTF8(false), MaxExpressions(0), GlobalStore("shared", "x"),
{{if not .Optimized}}	Memoize(false), Debug(false),
{{end}}}

// verifTable: a program's table of options from which calls take prefixes (table[:k]...).
var verifTable = []Option{Entrypoint(""), Recover(true), AllowInvalidUTF8(false), MaxExpressions(0), GlobalStore("t", 1), Recover(true), AllowInvalidUTF8(false), MaxExpressions(0)}

{{if .HasState}}
// verifStX: a helper of the user's package, kept outside the grammar file, through which code blocks
// of some grammars reach the state store.
func verifStX(x *current) map[string]any { return x.state }
{{end}}
// verifInitRes: a Parse call made while the package's variables are initialised, the way a program
// does that keeps a parsed default in a package-level variable (var defaults = mustParse("...")).
// The generated parser must be usable there: whatever it needs is initialised first by Go's
// dependency order. The result is compared with the same call made at run time.
var verifInitRes = verifInitCall()

func verifInitCall() *mon.Result {
	res := &mon.Result{ID: "init"}
	func() {
		defer func() {
			if e := recover(); e != nil {
				res.Panic = mon.CanonPanic(e)
			}
		}()
		val, err := Parse("", []byte({{printf "%q" .InitInput}}), MaxExpressions(20000))
		res.Val = mon.Canon(val)
		if err == nil {
			res.ErrNil = true
		} else {
			res.ErrStr = err.Error()
		}
	}()
	return res
}

func verifRun(c *mon.Case) *mon.Result {
	if c.InitProbe {
		// what the call returned during initialisation, and the same call again now that it is over
		r := *verifInitRes
		r.ID = c.ID
		r.Init = verifInitCall()
		return &r
	}
	if c.TableOpts > 0 && c.TableOpts <= len(verifTable) {
		res := &mon.Result{ID: c.ID}
		in := append([]byte{}, c.Input...)
		var val any
		var err error
		func() {
			defer func() {
				if e := recover(); e != nil {
					res.Panic = mon.CanonPanic(e)
				}
			}()
			val, err = Parse(c.File, in, verifTable[:c.TableOpts]...)
		}()
		res.Val = mon.Canon(val)
		if err == nil {
			res.ErrNil = true
		} else {
			res.ErrStr = err.Error()
		}
		return res
	}
	res := &mon.Result{ID: c.ID}
	tr := &mon.Trace{Stress: c.Stress, Max: c.MaxEvents}
	var vp *parser
	// every other case takes its option values from the program's own store of options built once
	// (an Option is a value a caller may keep and pass to any number of calls)
	keep := len(c.Input)%2 == 1
	_ = keep
	opts := []Option{GlobalStore("mon", tr), GlobalStore(mon.NestedKey, verifNested)}
	if c.SharedOpts {
		opts = append(append([]Option{}, verifSharedOpts...), opts...)
	}
	if c.Entry != "" {
		opts = append(opts, Entrypoint(c.Entry))
	}
	if c.AllowInvalid {
		if keep {
			opts = append(opts, verifKeptAllow)
		} else {
			opts = append(opts, AllowInvalidUTF8(true))
		}
	}
	if c.NoRecover {
		if keep {
			opts = append(opts, verifKeptNoRecover)
		} else {
			opts = append(opts, Recover(false))
		}
	}
	if c.MaxExpr > 0 {
		if keep {
			opts = append(opts, verifKeptBudget(c.MaxExpr))
		} else {
			opts = append(opts, MaxExpressions(c.MaxExpr))
		}
	}
{{if .HasState}}
	if c.Init > 0 {
		for k, v := range mon.InitialState(c.Init) {
			opts = append(opts, InitState(k, v))
		}
	}
{{end}}
	dbgFile := ""
	_ = dbgFile
{{if not .Optimized}}
	var st Stats
	if c.Memo {
		if keep {
			opts = append(opts, verifKeptMemo)
		} else {
			opts = append(opts, Memoize(true))
		}
	}
	if c.Stats {
		st.ExprCnt = c.StatsPre
		if len(c.Input)%3 == 1 {
			// a collector the caller prepared (counters of an earlier run loaded back to keep counting):
			// some of its fields are set, others are still zero
			st.ChoiceAltCnt = map[string]map[string]int{"Earlier 1:1": {"1": 2, "no match": 1}}
		}
		opts = append(opts, Statistics(&st, "no match"))
	}
	if c.StatsReused {
		verifReusedStats.ExprCnt = 0
		opts = append(opts, Statistics(&verifReusedStats, "no match"))
	}
	if c.DebugQuiet {
		opts = append(opts, Debug(true))
	}
	if c.Debug {
		opts = append(opts, Debug(true))
		if f, err := os.CreateTemp("", "dbg"); err == nil {
			dbgFile = f.Name()
			old := os.Stdout
			os.Stdout = f
			defer func() {
				os.Stdout = old
				f.Close()
				res.Dbg = mon.DigestDebug(dbgFile, c.Input)
				os.Remove(dbgFile)
			}()
		}
	}
{{end}}
	opts = append(opts, func(p *parser) Option { vp = p; mon.SetLive(&p.ExprCnt); return nil })
	// the input is a prefix of a larger buffer of the caller's (never nil: Parse and ParseReader must
	// see the same kind of buffer); the spare capacity holds a canary
	buf := make([]byte, len(c.Input)+8)
	copy(buf, c.Input)
	for i := len(c.Input); i < len(buf); i++ {
		buf[i] = 0xA5
	}
	in := buf[:len(c.Input)]
	var val any
	var err error
	func() {
		defer func() {
			if e := recover(); e != nil {
				res.Panic = mon.CanonPanic(e)
			}
		}()
		if c.Reader {
			val, err = ParseReader(c.File, verifReader(in), opts...)
		} else {
			val, err = Parse(c.File, in, opts...)
		}
	}()
	mon.SetLive(nil)
	if !bytes.Equal(in, c.Input) || !bytes.Equal(buf[len(in):], []byte{0xA5, 0xA5, 0xA5, 0xA5, 0xA5, 0xA5, 0xA5, 0xA5}) {
		res.Touched = fmt.Sprintf("input % x + spare capacity a5 a5 a5 a5 a5 a5 a5 a5 -> % x", c.Input, buf)
		res.InputChanged = true
	}
	if c.Reader && res.Panic == "" {
		// a result must stay what it is when the entry point is used again
		v1 := mon.Canon(val)
		e1 := ""
		if err != nil {
			e1 = err.Error()
		}
		other := bytes.Repeat([]byte{'Z'}, len(in)+1)
		func() {
			defer func() { recover() }()
			o2 := []Option{GlobalStore("mon", &mon.Trace{Max: 1}), MaxExpressions(20000)}
			if c.Entry != "" {
				o2 = append(o2, Entrypoint(c.Entry))
			}
			ParseReader("", bytes.NewReader(other), o2...)
			// and the same input once more under another file name: as many errors as before are
			// recorded again, with a different prefix
			ParseReader("other.file", bytes.NewReader(append([]byte{}, c.Input...)), o2...)
		}()
		if v2 := mon.Canon(val); v2 != v1 {
			res.Unstable = fmt.Sprintf("%.200s -> %.200s", v1, v2)
		}
		if err != nil {
			// the error list the caller holds is the caller's: later calls must not rewrite it
			if e2 := err.Error(); e2 != e1 {
				res.Unstable += fmt.Sprintf(" error list: %.200q -> %.200q", e1, e2)
			}
		}
	}
{{if not .Optimized}}
	if c.Stats {
		for k, m := range st.ChoiceAltCnt {
			if k == "Earlier 1:1" {
				continue
			}
			for _, n := range m {
				res.ChoiceEvals += n
			}
		}
	}
{{end}}
	res.Val = mon.Canon(val)
	if sh := mon.Shape(val); len(sh) <= 400 {
		res.Shape = sh
	} else {
		res.Shape = fmt.Sprintf("%s...#%d", sh[:380], len(sh))
	}
	res.Trace = tr.Events
	res.StateIDs = tr.StateID
	res.Dropped = tr.Dropped
	if string(in) != string(c.Input) {
		res.InputChanged = true
	}
	if vp != nil {
		res.End = vp.pt.offset
		res.ExprCnt = vp.ExprCnt
		if s, ok := vp.cur.globalStore["glog"].(string); ok {
			res.GLog = s
		}
{{if .HasState}}
		res.FinalState = mon.CanonState(vp.cur.state)
{{end}}
{{if .HasMemo}}
		for _, m := range vp.memo {
			res.MemoEntries += len(m)
		}
{{end}}
	}
	if err == nil {
		res.ErrNil = true
		return res
	}
	res.ErrStr = err.Error()
	el, ok := err.(errList)
	if !ok {
		res.ErrType = fmt.Sprintf("%T", err)
		return res
	}
	res.ErrType = "errList"
	for _, e := range el {
		pe, ok := e.(*parserError)
		if !ok {
			res.Errs = append(res.Errs, mon.ErrRec{Msg: e.Error(), TypeOK: false})
			continue
		}
		r := mon.ErrRec{Msg: pe.Error(), TypeOK: true, Line: pe.pos.line, Col: pe.pos.col, Off: pe.pos.offset, Prefix: pe.prefix, Expected: pe.expected}
		if pe.Inner != nil {
			r.Inner = pe.Inner.Error()
			r.InnerKind = mon.InnerKind(pe.Inner)
		} else {
			r.InnerKind = "nil"
		}
		res.Errs = append(res.Errs, r)
	}
	return res
}
`

var harnessT = template.Must(template.New("h").Parse(harnessTmpl))

// NewBatch creates an empty batch directory.
func (w *Workspace) NewBatch(race bool) *Batch {
	w.mu.Lock()
	w.nbatch++
	n := w.nbatch
	w.mu.Unlock()
	dir := filepath.Join(w.Dir, fmt.Sprintf("vb%04d", n))
	return &Batch{W: w, Dir: dir, Race: race, Timeout: 20}
}

// Add adds a package.
func (b *Batch) Add(p *Pkg) { b.Pkgs = append(b.Pkgs, p) }

// Build writes the module and compiles it. Packages that fail to compile make the whole build
// fail; the error text is returned (callers that expect compile errors use BuildEach).
func (b *Batch) Build() (string, error) {
	if err := b.write(); err != nil {
		return "", err
	}
	t0 := time.Now()
	b.Bin = filepath.Join(b.Dir, "child")
	args := []string{"build", "-o", b.Bin}
	if b.Race {
		args = append(args, "-race")
	}
	args = append(args, ".")
	cmd := exec.Command("go", args...)
	cmd.Dir = b.Dir
	cmd.Env = b.W.env
	out, err := cmd.CombinedOutput()
	b.BuildS = time.Since(t0).Seconds()
	if err != nil {
		return string(out), fmt.Errorf("batch build failed: %v", err)
	}
	return string(out), nil
}

func (b *Batch) write() error {
	if err := os.MkdirAll(filepath.Join(b.Dir, "mon"), 0o755); err != nil {
		return err
	}
	os.WriteFile(filepath.Join(b.Dir, "go.mod"), []byte("module vb\n\ngo 1.25.0\n"), 0o644)
	ents, _ := mon.Sources.ReadDir(".")
	for _, e := range ents {
		if strings.HasSuffix(e.Name(), "_test.go") {
			continue
		}
		data, _ := mon.Sources.ReadFile(e.Name())
		os.WriteFile(filepath.Join(b.Dir, "mon", e.Name()), data, 0o644)
	}
	var main bytes.Buffer
	main.WriteString("package main\n\nimport (\n\t\"vb/mon\"\n")
	for _, p := range b.Pkgs {
		pd := filepath.Join(b.Dir, p.Name)
		if err := os.MkdirAll(pd, 0o755); err != nil {
			return err
		}
		if err := os.WriteFile(filepath.Join(pd, "g.go"), p.Src, 0o644); err != nil {
			return err
		}
		var hb bytes.Buffer
		if err := harnessT.Execute(&hb, p); err != nil {
			return err
		}
		os.WriteFile(filepath.Join(pd, "h.go"), hb.Bytes(), 0o644)
		for n, d := range p.Extra {
			os.WriteFile(filepath.Join(pd, n), d, 0o644)
		}
		fmt.Fprintf(&main, "\t_ \"vb/%s\"\n", p.Name)
	}
	main.WriteString(")\n\nfunc main() { mon.Main() }\n")
	return os.WriteFile(filepath.Join(b.Dir, "main.go"), main.Bytes(), 0o644)
}

// GoCmd runs a go command (vet, build ./pkg) in the batch dir.
func (b *Batch) GoCmd(args ...string) (string, error) {
	cmd := exec.Command("go", args...)
	cmd.Dir = b.Dir
	cmd.Env = b.W.env
	out, err := cmd.CombinedOutput()
	return string(out), err
}

// WriteOnly writes the module without compiling (for vet / per-package builds).
func (b *Batch) WriteOnly() error { return b.write() }

// Remove deletes the batch directory.
func (b *Batch) Remove() { os.RemoveAll(b.Dir) }

// RunOpts controls a child run.
type RunOpts struct {
	Env      []string
	WallSec  int // whole-child wall limit per (re)start, default 600
	MemLimit string
	NoRetry   bool
	MaxDeaths int // stop after this many child deaths/timeouts (0 = 40); the remaining cases get no result
}

// Run executes the cases; the child is restarted after a case that kills it. The result for a
// case that killed the child has Died set (stderr tail) or Timeout set.
func (b *Batch) Run(cases []*mon.Case, ro RunOpts) (map[string]*mon.Result, error) {
	results, err := b.run(cases, ro, b.Timeout)
	if ro.NoRetry {
		return results, err
	}
	// A watchdog firing can be the machine's fault (CPU steal, load): every case that timed out is
	// run once more, alone, with an eight times longer watchdog; only that second observation counts.
	byID := map[string]*mon.Case{}
	for _, c := range cases {
		byID[c.ID] = c
	}
	n := 0
	for id, r := range results {
		if !r.Timeout || n >= 6 {
			continue
		}
		n++
		r2, _ := b.run([]*mon.Case{byID[id]}, RunOpts{Env: ro.Env, MemLimit: ro.MemLimit, MaxDeaths: 1, WallSec: b.Timeout*8 + 30}, b.Timeout*8)
		if x, ok := r2[id]; ok {
			x.Retried = true
			results[id] = x
		}
	}
	return results, err
}

func (b *Batch) run(cases []*mon.Case, ro RunOpts, timeout int) (map[string]*mon.Result, error) {
	results := make(map[string]*mon.Result, len(cases))
	remaining := cases
	round := 0
	for len(remaining) > 0 {
		round++
		tag := fmt.Sprintf("r%d", round)
		cf := filepath.Join(b.Dir, "cases."+tag+".jsonl")
		rf := filepath.Join(b.Dir, "results."+tag+".jsonl")
		pf := filepath.Join(b.Dir, "prelog."+tag)
		ef := filepath.Join(b.Dir, "stderr."+tag)
		f, err := os.Create(cf)
		if err != nil {
			return results, err
		}
		bw := bufio.NewWriter(f)
		enc := json.NewEncoder(bw)
		for _, c := range remaining {
			enc.Encode(c)
		}
		bw.Flush()
		f.Close()
		wall := ro.WallSec
		if wall == 0 {
			wall = 900
		}
		ctx, cancel := context.WithTimeout(context.Background(), time.Duration(wall)*time.Second)
		cmd := exec.CommandContext(ctx, b.Bin, cf, rf, pf, fmt.Sprint(timeout))
		cmd.Cancel = func() error { return cmd.Process.Signal(syscall.SIGQUIT) }
		cmd.WaitDelay = 5 * time.Second
		errf, _ := os.Create(ef)
		cmd.Stderr = errf
		cmd.Stdout = errf
		mem := ro.MemLimit
		if mem == "" {
			mem = "6GiB"
		}
		cmd.Env = append(append([]string{}, b.W.env...), "GOMEMLIMIT="+mem)
		cmd.Env = append(cmd.Env, ro.Env...)
		cmd.Dir = filepath.Join(b.W.Dir, "tmp")
		runErr := cmd.Run()
		cancel()
		errf.Close()
		// collect results
		got := 0
		if rfh, err := os.Open(rf); err == nil {
			sc := bufio.NewScanner(rfh)
			sc.Buffer(make([]byte, 1<<20), 1<<28)
			for sc.Scan() {
				var r mon.Result
				if err := json.Unmarshal(sc.Bytes(), &r); err != nil {
					continue
				}
				if _, dup := results[r.ID]; !dup {
					got++
				}
				rr := r
				results[r.ID] = &rr
			}
			rfh.Close()
		}
		os.Remove(cf)
		os.Remove(rf)
		if runErr == nil {
			os.Remove(pf)
			os.Remove(ef)
			break
		}
		// the child died: find the case it was running
		last := ""
		if data, err := os.ReadFile(pf); err == nil {
			lines := strings.Split(strings.TrimSpace(string(data)), "\n")
			if len(lines) > 0 {
				last = lines[len(lines)-1]
			}
		}
		os.Remove(pf)
		tail := tailFile(ef, 4000)
		os.Remove(ef)
		idx := -1
		for i, c := range remaining {
			if c.ID == last {
				idx = i
				break
			}
		}
		if idx < 0 {
			return results, fmt.Errorf("child failed before running any case: %v\n%s", runErr, tail)
		}
		if r, ok := results[last]; ok && r.Timeout {
			// reported by the in-child watchdog
		} else {
			results[last] = &mon.Result{ID: last, Died: fmt.Sprintf("%v: %s", runErr, tail)}
		}
		remaining = remaining[idx+1:]
		md := ro.MaxDeaths
		if md == 0 {
			md = 40
		}
		if round >= md {
			break // the rest is reported as not run (inconclusive) by the caller
		}
	}
	return results, nil
}

func tailFile(path string, n int) string {
	data, err := os.ReadFile(path)
	if err != nil {
		return ""
	}
	// keep the head (fatal error line) and the tail
	if len(data) > n {
		head := data[:n/2]
		tl := data[len(data)-n/2:]
		return string(head) + "\n...\n" + string(tl)
	}
	return string(data)
}

// RunConc runs the concurrent stress mode of a (race-instrumented) batch binary and returns the
// summary JSON and the race detector's log.
func (b *Batch) RunConc(cases []*mon.Case, goroutines, iters int, canary bool, gomaxprocs int) ([]byte, string, error) {
	cf := filepath.Join(b.Dir, "conc.cases.jsonl")
	of := filepath.Join(b.Dir, "conc.out.json")
	lp := filepath.Join(b.Dir, "race.log")
	f, err := os.Create(cf)
	if err != nil {
		return nil, "", err
	}
	enc := json.NewEncoder(f)
	for _, c := range cases {
		enc.Encode(c)
	}
	f.Close()
	can := "nocanary"
	if canary {
		can = "canary"
	}
	ctx, cancel := context.WithTimeout(context.Background(), 40*time.Minute)
	defer cancel()
	cmd := exec.CommandContext(ctx, b.Bin, "-conc", cf, of, fmt.Sprint(goroutines), fmt.Sprint(iters), can)
	cmd.Env = append(append([]string{}, b.W.env...), "GORACE=halt_on_error=0 log_path="+lp, fmt.Sprintf("GOMAXPROCS=%d", gomaxprocs))
	cmd.Dir = filepath.Join(b.W.Dir, "tmp")
	out, runErr := cmd.CombinedOutput()
	sum, _ := os.ReadFile(of)
	var logs strings.Builder
	matches, _ := filepath.Glob(lp + ".*")
	for _, m := range matches {
		d, _ := os.ReadFile(m)
		logs.Write(d)
		os.Remove(m)
	}
	os.Remove(cf)
	os.Remove(of)
	if runErr != nil && len(sum) == 0 {
		head := out
		if i := bytes.Index(out, []byte("fatal error:")); i >= 0 {
			head = out[i:]
		} else if i := bytes.Index(out, []byte("panic:")); i >= 0 {
			head = out[i:]
		}
		if len(head) > 1500 {
			head = head[:1500]
		}
		return nil, logs.String(), fmt.Errorf("concurrent child failed: %v: %s ... %s", runErr, head, tailBytes(out, 600))
	}
	return sum, logs.String(), nil
}

func tailBytes(b []byte, n int) string {
	if len(b) > n {
		b = b[len(b)-n:]
	}
	return string(b)
}

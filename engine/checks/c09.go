package checks

import (
	"fmt"
	"math/rand"
	"strconv"
	"strings"

	"verif/engine/gast"
	"verif/engine/mon"
)

// ---- canonical value normalisation: structure of action-less groups may be regrouped -----------

type cnode struct {
	kind byte // 'n' nil, 'b' bytes, 'a' atom (action-produced: string, int, other), 'l' list
	s    string
	kids []*cnode
}

func parseCanon(s string) (*cnode, string) {
	switch {
	case strings.HasPrefix(s, "nil"):
		return &cnode{kind: 'n'}, s[3:]
	case strings.HasPrefix(s, "b\""), strings.HasPrefix(s, "s\""):
		q, err := strconv.QuotedPrefix(s[1:])
		if err != nil {
			return &cnode{kind: 'a', s: s}, ""
		}
		u, _ := strconv.Unquote(q)
		if s[0] == 'b' {
			return &cnode{kind: 'b', s: u}, s[1+len(q):]
		}
		return &cnode{kind: 'a', s: "s" + q}, s[1+len(q):]
	case strings.HasPrefix(s, "["):
		n := &cnode{kind: 'l'}
		rest := s[1:]
		if strings.HasPrefix(rest, "]") {
			return n, rest[1:]
		}
		for {
			var k *cnode
			k, rest = parseCanon(rest)
			n.kids = append(n.kids, k)
			if strings.HasPrefix(rest, ",") {
				rest = rest[1:]
				continue
			}
			if strings.HasPrefix(rest, "]") {
				return n, rest[1:]
			}
			return n, rest
		}
	default:
		// i123 or ?T:v up to the next delimiter
		i := 0
		for i < len(s) && s[i] != ',' && s[i] != ']' && s[i] != ';' {
			i++
		}
		return &cnode{kind: 'a', s: s[:i]}, s[i:]
	}
}

// normCanon flattens a canonical value to its in-order leaf sequence, concatenating adjacent byte
// chunks and dropping nils.
func normCanon(s string) string {
	n, _ := parseCanon(s)
	var out []string
	var buf strings.Builder
	has := false
	flush := func() {
		if has {
			out = append(out, "b"+strconv.Quote(buf.String()))
			buf.Reset()
			has = false
		}
	}
	var walk func(n *cnode)
	walk = func(n *cnode) {
		switch n.kind {
		case 'b':
			buf.WriteString(n.s)
			has = true
		case 'a':
			flush()
			out = append(out, n.s)
		case 'l':
			for _, k := range n.kids {
				walk(k)
			}
		}
	}
	walk(n)
	flush()
	return strings.Join(out, " ")
}

// normEvent normalises the label values of one event and masks what -optimize-grammar may change.
func normEvent(ev string) string {
	f := strings.SplitN(ev, "|", 8)
	if len(f) < 8 {
		return ev
	}
	// f: kind id off pos text labels state glog
	labs := f[5]
	var parts []string
	for labs != "" {
		eq := strings.IndexByte(labs, '=')
		if eq < 0 {
			break
		}
		name := labs[:eq]
		n, rest := parseCanon(labs[eq+1:])
		_ = n
		val := labs[eq+1 : len(labs)-len(rest)]
		parts = append(parts, name+"="+normCanon(val))
		labs = strings.TrimPrefix(rest, ";")
	}
	f[5] = strings.Join(parts, ";")
	if f[0] == "P" || f[0] == "S" {
		f[2], f[3], f[4] = "~", "~", "~" // stale in predicate/state blocks (F02)
	}
	return strings.Join(f, "|")
}

func c09Compare(a, b *mon.Result, cs *mon.Case, g *gast.Grammar) []diff {
	var ds []diff
	if a.Died != "" || b.Died != "" || a.Timeout || b.Timeout {
		if (a.Died != "") != (b.Died != "") || a.Timeout != b.Timeout {
			ds = append(ds, diff{"termination", trunc(a.Died), trunc(b.Died)})
		}
		return ds
	}
	if a.ErrNil != b.ErrNil {
		ds = append(ds, diff{"accepts", fmt.Sprintf("error-nil=%t %s", a.ErrNil, a.ErrStr), fmt.Sprintf("error-nil=%t %s", b.ErrNil, b.ErrStr)})
	}
	if a.End != b.End {
		ds = append(ds, diff{"end", a.End, b.End})
	}
	if na, nb := normCanon(a.Val), normCanon(b.Val); na != nb {
		ds = append(ds, diff{"value", na + "   (raw " + a.Val + ")", nb + "   (raw " + b.Val + ")"})
	}
	ta := make([]string, len(a.Trace))
	for i, e := range a.Trace {
		ta[i] = normEvent(e)
	}
	tb := make([]string, len(b.Trace))
	for i, e := range b.Trace {
		tb[i] = normEvent(e)
	}
	if d := traceDiff(ta, tb); d != nil {
		ds = append(ds, *d)
	}
	if a.FinalState != b.FinalState {
		ds = append(ds, diff{"finalstate", a.FinalState, b.FinalState})
	}
	return ds
}

func optProfile() *gast.Profile {
	p := pegProfile()
	p.MinRules, p.MaxRules, p.MaxDepth = 3, 9, 3
	p.W = weights(map[gast.Kind]int{gast.Choice: 20, gast.Seq: 20, gast.Action: 8, gast.And: 3, gast.Not: 4, gast.ZeroOrOne: 5,
		gast.ZeroOrMore: 6, gast.OneOrMore: 5, gast.RuleRef: 26, gast.Lit: 22, gast.Class: 16, gast.Any: 2, gast.AndCode: 2, gast.NotCode: 2, gast.StateCode: 2})
	p.Alphabets = [][]rune{[]rune("ab"), []rune("abc"), []rune("aAbB"), []rune("abcd"), []rune("a _1"), []rune("aB-.")}
	p.PMultiLit = 15
	p.PInverted = 30
	p.PIgnoreCase = 25
	p.PUClass = 8
	p.PBackRef = 15
	p.PLabel = 45
	p.PWideRange = 0
	p.ActSpec = func(r *rand.Rand) mon.Spec { return mon.Spec{R: pick(r, 1, 2, 2, 3, 4), E: pick(r, 0, 0, 0, 2)} }
	// predicates are constants here: a coin over label values would see the regrouping of action-less
	// structure that the optimizer is allowed to do
	p.PredSpec = func(r *rand.Rand) mon.Spec { return mon.Spec{B: pick(r, 0, 0, 0, 1)} }
	p.StateSpec = func(r *rand.Rand) mon.Spec { return mon.Spec{S: 1 + r.Intn(7)} }
	return p
}

// C09: -optimize-grammar preserves the language and what actions see.
func C09(c *Ctx) {
	c.Rule("grammars aimed at the optimiser's triggers (leaf rules referenced 1-4 times from several hosts next to literals and inside choices of single-rune literals and classes, nested choices and sequences, every pairing of literal/class x i x ^ side by side, singleton wrappers, unused rules, recursion) with a random subset of rules as -alternate-entrypoints; " +
		"two real parsers per grammar (without / with -optimize-grammar); inputs = derived, mutated and bounded-exhaustive over tiny alphabets; the first rule and every listed entrypoint are used as Entrypoint; " +
		"oracle = differential: accepts, consumed prefix, value and label values normalised exactly as far as the property allows (action-less structure flattened to its leaf sequence, adjacent byte chunks concatenated, nils dropped; action-produced values exact), action/predicate/state-block trace with text and pos, final state; also: -optimize-grammar must succeed and compile wherever the plain mode does. " +
		"distinct_nontrivial = distinct (grammar, input, entrypoint) accepted by the reference parser with >=1 block event or a structured value")
	c.Assume("error messages legitimately change under -optimize-grammar (rule prefixes, class spelling) and are not compared; actions return text, ids or label values, never a rendering of structural label values")
	rng := rand.New(rand.NewSource(c.Seed*389 + 9))
	n := c.N(150, 2500)
	gs := c09Strata()
	nStrata := len(gs)
	p := optProfile()
	tp := throwProfile()
	tp.MaxDepth, tp.MinRules, tp.MaxRules = 3, 3, 8
	tp.ActSpec = p.ActSpec
	tp.PredSpec = p.PredSpec
	for i := 0; i < n; i++ {
		if i%5 == 4 {
			gs = append(gs, gast.Generate(rng, tp)) // throw/recover under the optimizer
			continue
		}
		gs = append(gs, gast.Generate(rng, p))
	}
	entries := make([][]string, len(gs))
	for i, g := range gs {
		for _, r := range g.Rules[1:] {
			if rng.Intn(3) == 0 {
				entries[i] = append(entries[i], r.Name)
			}
		}
	}
	for i, g := range gs {
		if i%4 == 2 && len(entries[i]) > 0 {
			// the first rule named explicitly, and a name given twice
			entries[i] = append([]string{g.Rules[0].Name}, append(entries[i], entries[i][0])...)
		}
	}
	cfg := &DiffConfig{
		Grammars: gs,
		VarFor: func(gi int, g *gast.Grammar) [][]string {
			v := []string{"-optimize-grammar"}
			if len(entries[gi]) > 1 && gi%2 == 1 {
				// the flag may be given several times
				for _, e := range entries[gi] {
					v = append(v, "-alternate-entrypoints", e)
				}
			} else if len(entries[gi]) > 0 {
				v = append(v, "-alternate-entrypoints", strings.Join(entries[gi], ","))
			}
			if gi < nStrata {
				// the fixed shapes also run without any protected entrypoint (a protected rule is never
				// removed) and together with -optimize-basic-latin (tables computed from optimized classes)
				if len(v) == 1 {
					return [][]string{{}, v, {"-optimize-grammar", "-optimize-basic-latin"}}
				}
				return [][]string{{}, v, {"-optimize-grammar"}, {"-optimize-grammar", "-optimize-basic-latin"}}
			}
			return [][]string{{}, v}
		},
		Cases: func(gi int, g *gast.Grammar) []*mon.Case {
			ins := c.inputsFor(g, rng, c.N(50, 120), c.N(250, 1500), false)
			var cs []*mon.Case
			alpha := g.Alphabet()
			for ii, in := range ins {
				cs = append(cs, &mon.Case{Input: in, MaxExpr: 400000, MaxEvents: 600})
				if ii%6 == 2 && len(in) > 0 {
					bad := gast.Mutate(rng, in, alpha, true)
					cs = append(cs, &mon.Case{Input: bad, MaxExpr: 400000, MaxEvents: 600}, &mon.Case{Input: bad, AllowInvalid: true, MaxExpr: 400000, MaxEvents: 600})
				}
				for ei, e := range entries[gi] {
					if (ii+ei)%3 == 0 {
						cs = append(cs, &mon.Case{Input: in, Entry: e, MaxExpr: 400000, MaxEvents: 600})
					}
				}
			}
			return cs
		},
		CaseOK: func(variant []string, cs *mon.Case) bool {
			return cs.Entry == "" || len(variant) == 0 || hasFlag(variant, "-alternate-entrypoints")
		},
		Compare: c09Compare,
		NonTrivial: func(r *mon.Result, cs *mon.Case) bool {
			return r.ErrNil && (len(r.Trace) > 0 || strings.Contains(r.Val, ","))
		},
		Chunk: 50,
		Sig:   c09Sig,
	}
	c.runKnownC09()
	c.DiffCheck(cfg)
	// left-recursive grammars: -optimize-grammar together with -support-left-recursion (the analysis that
	// finds the recursive rules and their leaders runs on the optimized grammar)
	lgs := c09LRStrata()
	lcfg := &DiffConfig{
		Grammars: lgs,
		IsLR:     func(int) bool { return true },
		VarFor: func(gi int, g *gast.Grammar) [][]string {
			return [][]string{{"-support-left-recursion"}, {"-support-left-recursion", "-optimize-grammar"}, {"-optimize-grammar", "-support-left-recursion", "-optimize-parser"}}
		},
		Cases: func(gi int, g *gast.Grammar) []*mon.Case {
			var cs []*mon.Case
			for _, in := range lrInputs(g, rng, c.N(60, 200)) {
				if len(in) > 60 {
					continue
				}
				cs = append(cs, &mon.Case{Input: in, MaxExpr: 400000, MaxEvents: 600})
			}
			for _, in := range gast.Exhaustive(g.Alphabet(), 4, c.N(300, 1500)) {
				cs = append(cs, &mon.Case{Input: in, MaxExpr: 400000, MaxEvents: 600})
			}
			return cs
		},
		Compare: c09Compare,
		NonTrivial: func(r *mon.Result, cs *mon.Case) bool {
			return r.ErrNil && (len(r.Trace) > 0 || strings.Contains(r.Val, ","))
		},
		Chunk: 50,
		Sig:   c09Sig,
	}
	c.DiffCheck(lcfg)
}

func c09LRStrata() []*gast.Grammar {
	mk := func(rules ...*gast.Rule) *gast.Grammar { return &gast.Grammar{Rules: rules} }
	r := func(n string, e *gast.Expr) *gast.Rule { return &gast.Rule{Name: n, Expr: e} }
	txt := func(e *gast.Expr, id int) *gast.Expr { return gast.A(e, id, mon.Spec{R: 2}) }
	none := func(e *gast.Expr, id int) *gast.Expr { return gast.A(e, id, mon.Spec{R: 1}) }
	num := func() *gast.Expr { return gast.Plus(gast.Cl(&gast.ClassSpec{Ranges: [][2]rune{{'0', '9'}}})) }
	return []*gast.Grammar{
		// expr/term/factor with leaf rules to inline
		mk(r("S", gast.S(gast.Ref("E"), gast.NotE(gast.Dot()))), r("E", gast.C(txt(gast.S(gast.Lab("a", gast.Ref("E")), gast.Ref("Plus"), gast.Lab("b", gast.Ref("T"))), 1), gast.Ref("T"))),
			r("T", gast.C(txt(gast.S(gast.Lab("a", gast.Ref("T")), gast.L("*"), gast.Lab("b", gast.Ref("F"))), 2), gast.Ref("F"))), r("F", gast.C(gast.Ref("N"), gast.S(gast.L("("), gast.Ref("E"), gast.L(")")))),
			r("N", txt(num(), 3)), r("Plus", gast.C(gast.L("+"), gast.L("-")))),
		// the recursive reference stands behind an inlined leaf rule that can match empty: an action, a
		// choice, a labelled sequence, a plain repetition
		mk(r("S", gast.S(gast.Ref("Expr"), gast.NotE(gast.Dot()))), r("Expr", gast.C(txt(gast.S(gast.Ref("_"), gast.Lab("l", gast.Ref("Expr")), gast.L("+"), gast.Lab("r", gast.Ref("Term"))), 1), gast.S(gast.Ref("_"), gast.Ref("Term")))),
			r("_", none(gast.Star(gast.L(" ")), 2)), r("Term", txt(num(), 3))),
		mk(r("S", gast.S(gast.Ref("Expr"), gast.NotE(gast.Dot()))), r("Expr", gast.C(txt(gast.S(gast.Ref("Sp"), gast.Lab("l", gast.Ref("Expr")), gast.L("+"), gast.Lab("r", gast.Ref("Term"))), 1), gast.S(gast.Ref("Sp"), gast.Ref("Term")))),
			r("Sp", gast.C(gast.L(" "), gast.L(""))), r("Term", txt(num(), 3))),
		mk(r("S", gast.S(gast.Ref("Expr"), gast.NotE(gast.Dot()))), r("Expr", gast.C(txt(gast.S(gast.Ref("Ws"), gast.Lab("l", gast.Ref("Expr")), gast.L("+"), gast.Lab("r", gast.Ref("Term"))), 1), gast.Ref("Term"))),
			r("Ws", gast.S(gast.Lab("w", gast.Opt(gast.L(" "))), gast.AndC(2, mon.Spec{}))), r("Term", txt(gast.S(gast.Star(gast.L(" ")), num()), 3))),
		mk(r("S", gast.S(gast.Ref("Expr"), gast.NotE(gast.Dot()))), r("Expr", gast.C(txt(gast.S(gast.Ref("Ws"), gast.Lab("l", gast.Ref("Expr")), gast.L("+"), gast.Lab("r", gast.Ref("Term"))), 1), gast.Ref("Term"))),
			r("Ws", gast.Star(gast.L(" "))), r("Term", txt(gast.S(gast.Star(gast.L(" ")), num()), 3))),
		// an indirect cycle with leaf rules on both members, and a second, direct level
		mk(r("S", gast.S(gast.Ref("A"), gast.NotE(gast.Dot()))), r("A", gast.C(txt(gast.S(gast.Lab("x", gast.Ref("B")), gast.Ref("X")), 1), gast.Ref("Y"))), r("B", gast.C(txt(gast.S(gast.Lab("x", gast.Ref("A")), gast.L("z")), 2), gast.Ref("W"))),
			r("X", gast.L("x")), r("Y", gast.C(gast.L("y"), gast.Ref("L2"))), r("W", gast.Cl(gast.Chars("w"))), r("L2", gast.C(txt(gast.S(gast.Lab("a", gast.Ref("L2")), gast.L("+"), gast.Ref("Y2")), 3), gast.Ref("Y2"))), r("Y2", gast.L("1"))),
	}
}

// c09Sig recognises known finding F07: a leaf rule is inlined into a host that has a label of the
// same name, and the generated code declares that parameter twice.
func c09Sig(g *gast.Grammar, variant []string, d diff) []string {
	got, _ := d.got.(string)
	if d.field != "variant-not-built" || !strings.Contains(got, "redeclared in this block") {
		return nil
	}
	if gast.InlineClash(g) {
		return []string{"F07-inline-label-clash"}
	}
	return nil
}

// runKnownC09 executes the fixed witness of known finding F07.
func (c *Ctx) runKnownC09() {
	g := &gast.Grammar{Rules: []*gast.Rule{
		{Name: "S", Expr: gast.A(gast.S(gast.Lab("a", gast.L("x")), gast.Ref("L")), 1, mon.Spec{R: 2})},
		{Name: "L", Expr: gast.A(gast.Lab("a", gast.L("y")), 2, mon.Spec{R: 2})},
	}}
	g.Finalize()
	bt := c.BuildUnits([]*gast.Grammar{g}, [][]string{{"-optimize-grammar"}}, false, nil)
	defer bt.Close()
	c.MarkKnownStillFails("F07-inline-label-clash", !bt.Units[0].OK && strings.Contains(bt.Units[0].Fail, "redeclared"))
	c.Eval(1)
}

func c09Strata() []*gast.Grammar {
	mk := func(rules ...*gast.Rule) *gast.Grammar { return &gast.Grammar{Rules: rules} }
	r := func(n string, e *gast.Expr) *gast.Rule { return &gast.Rule{Name: n, Expr: e} }
	inv := func(s string) *gast.Expr { return gast.Cl(&gast.ClassSpec{Chars: []rune(s), Inverted: true}) }
	act := func(e *gast.Expr, id int) *gast.Expr { return gast.A(e, id, mon.Spec{R: 2}) }
	word := func() *gast.Expr { return gast.Plus(gast.Cl(gast.Chars("ab"))) }
	rng09 := [][2]rune{{'a', 'z'}}
	return []*gast.Grammar{
		// "anything but" idioms: a negative lookahead over a terminal (written in place or through a leaf
		// rule), directly followed by the any matcher - plain, inverted, caseless, Unicode-class and
		// literal operands; an optimizer that fuses the pair into one class must get each of them right
		mk(r("S", gast.S(gast.Plus(gast.S(gast.NotE(gast.Ref("Delim")), gast.Dot())), gast.Star(gast.Dot()))), r("Delim", gast.Cl(&gast.ClassSpec{Chars: []rune("0_"), Ranges: rng09, Inverted: true}))),
		mk(r("S", gast.S(act(gast.Plus(gast.S(gast.NotE(gast.Cl(&gast.ClassSpec{Ranges: rng09, Inverted: true})), gast.Dot())), 1), gast.Star(gast.S(gast.NotE(gast.Cl(&gast.ClassSpec{Ranges: rng09})), gast.Dot())), gast.Star(gast.Dot())))),
		mk(r("S", gast.Star(gast.C(act(gast.S(gast.NotE(gast.L("a")), gast.Dot()), 1), gast.S(gast.NotE(gast.Li("B")), gast.Dot()), gast.Dot())))),
		mk(r("S", gast.Star(gast.C(gast.S(gast.NotE(gast.Cl(&gast.ClassSpec{Chars: []rune("k"), Inverted: true, IgnoreCase: true})), gast.Dot()), gast.S(gast.NotE(gast.Cl(&gast.ClassSpec{UClasses: []string{"Lu"}, Inverted: true})), gast.Dot()), gast.S(gast.NotE(gast.Ref("D2")), gast.Dot()), gast.L("-")))),
			r("D2", gast.C(gast.L(","), gast.L(";")))),
		mk(r("S", gast.Star(gast.C(gast.S(gast.AndE(gast.Cl(&gast.ClassSpec{Ranges: rng09, Inverted: true})), gast.Dot()), gast.S(gast.NotE(gast.NotE(inv("q"))), gast.Dot()), gast.L("q"))))),
		// caseless classes whose range crosses the case blocks next to a character that lies inside the
		// range as written but outside the range as it is matched (after lower-casing)
		mk(r("S", gast.Star(gast.C(act(gast.Plus(gast.Cl(&gast.ClassSpec{Chars: []rune("_"), Ranges: [][2]rune{{'A', 'z'}}, IgnoreCase: true})), 1), gast.Cl(&gast.ClassSpec{Chars: []rune("_^0"), Ranges: [][2]rune{{'A', 'z'}}, IgnoreCase: true, Inverted: true}), gast.Dot())))),
		mk(r("S", gast.Star(gast.C(gast.Li("_"), gast.Cl(&gast.ClassSpec{Ranges: [][2]rune{{'A', 'z'}}, IgnoreCase: true}), gast.Li("["), gast.L("`"), gast.Cl(&gast.ClassSpec{Chars: []rune("]\\"), Ranges: [][2]rune{{'X', 'c'}}}), gast.L("-"))))),
		// recovery expressions that are rules used nowhere else and that reference further rules; an
		// inline recovery expression made of rule references; a leaf rule used both as recovery
		// expression and in an ordinary position of the same host
		mk(r("S", gast.S(gast.Star(gast.S(gast.Ref("Item"), gast.Opt(gast.L(";")))), gast.Star(gast.Dot()))),
			r("Item", gast.Rec(act(gast.S(gast.Lab("k", word()), gast.L("="), gast.Lab("v", gast.C(gast.Plus(gast.Cl(gast.Chars("01"))), gast.Thr("L1")))), 1), gast.Ref("Skip"), "L1")),
			r("Skip", act(gast.S(gast.Ref("Junk"), gast.AndE(gast.C(gast.L(";"), gast.NotE(gast.Dot())))), 2)), r("Junk", gast.Star(inv(";")))),
		mk(r("S", gast.S(gast.Star(gast.S(gast.Ref("Item"), gast.Opt(gast.L(";")))), gast.Star(gast.Dot()))),
			r("Item", gast.Rec(act(gast.S(gast.Lab("k", word()), gast.L("="), gast.Lab("v", gast.C(gast.Plus(gast.Cl(gast.Chars("01"))), gast.Thr("L1")))), 1), gast.C(gast.Ref("Q"), gast.Ref("J")), "L1")),
			r("Q", act(gast.S(gast.L("?"), gast.Ref("J")), 2)), r("J", act(gast.Star(inv(";")), 3))),
		mk(r("S", gast.S(gast.Star(gast.S(gast.Ref("Item"), gast.Opt(gast.L(";")))), gast.Star(gast.Dot()))),
			r("Item", gast.Rec(act(gast.S(gast.Lab("k", gast.Ref("W")), gast.L("="), gast.Lab("v", gast.C(gast.Plus(gast.Cl(gast.Chars("01"))), gast.Thr("L1")))), 1), gast.Ref("W"), "L1")),
			r("W", gast.Star(gast.Cl(gast.Chars("ab"))))),
		// a non-last alternative that can match the empty string and can also fail (blanks, then a lookahead)
		mk(r("S", gast.Star(gast.S(gast.C(gast.S(gast.Star(gast.L(" ")), gast.AndE(gast.L("]"))), gast.S(gast.Lab("k", gast.NotE(gast.L("x")))), gast.L("x")), gast.Dot())))),
		mk(r("S", gast.Star(gast.C(gast.S(gast.C(gast.Ref("G"), gast.L("y")), gast.Dot()), gast.L("]")))), r("G", gast.S(gast.Opt(gast.L("a")), gast.NotE(gast.L("]")), gast.Ref("H"))), r("H", gast.Opt(gast.L("b")))),
		mk(r("S", gast.C(gast.Ref("R1"), gast.Ref("R2"))), r("R1", gast.S(gast.Ref("L"), gast.L("b"))), r("R2", gast.S(gast.Ref("L"), gast.L("c"))), r("L", gast.L("a"))),
		// inverted classes side by side
		mk(r("S", gast.S(gast.C(inv("ab"), inv("cd")), gast.NotE(gast.Dot())))),
		// a one-rune literal next to an inverted class that excludes it through a range / a Unicode
		// class / a listed char / case folding
		mk(r("S", gast.Star(gast.C(gast.L("x"), gast.Cl(&gast.ClassSpec{Ranges: [][2]rune{{'a', 'z'}}, Inverted: true}))))),
		mk(r("S", gast.Star(gast.C(gast.L("k"), gast.Cl(&gast.ClassSpec{UClasses: []string{"Ll"}, Inverted: true}), gast.L("é"))))),
		mk(r("S", gast.Star(gast.C(gast.Li("X"), gast.Cl(&gast.ClassSpec{Chars: []rune("x"), Ranges: [][2]rune{{'a', 'w'}}, Inverted: true, IgnoreCase: true}))))),
		mk(r("S", gast.Star(gast.C(gast.Cl(&gast.ClassSpec{Ranges: [][2]rune{{'0', '9'}}, Inverted: true}), gast.L("5"), inv("xyz"), gast.L("y"))))),
		// one-rune literals separated by a multi-rune literal that starts with one of them (ordered choice!)
		mk(r("S", gast.Star(gast.C(gast.L("="), gast.L("<="), gast.L("<"), gast.L("a"), gast.L(">>"), gast.L(">"))))),
		mk(r("S", gast.Star(gast.S(gast.Plus(gast.Cl(gast.Chars("0123456789"))), gast.C(gast.Li("Ki"), gast.L("k"), gast.Li("Mi"), gast.L("m"), gast.L("g"), gast.Li("Gi")), gast.Opt(gast.L(",")))))),
		// a merged class whose display text looks like another, genuine class of the same grammar
		mk(r("S", gast.Star(gast.C(gast.Ref("Anchor"), gast.Ref("Text")))), r("Anchor", act(gast.C(gast.L("^"), gast.L("$")), 1)), r("Text", act(gast.Plus(gast.Cl(&gast.ClassSpec{Chars: []rune("$"), Inverted: true})), 2))),
		mk(r("S", gast.Star(gast.C(gast.Ref("Dash"), gast.Ref("Low"), gast.Dot()))), r("Dash", act(gast.C(gast.L("a"), gast.L("-"), gast.L("z")), 1)), r("Low", act(gast.S(gast.L("!"), gast.Cl(&gast.ClassSpec{Ranges: [][2]rune{{'a', 'z'}}})), 2))),
		// a caseless one-rune literal next to a literal / class with the other i flag
		mk(r("S", gast.Plus(gast.C(gast.L("_"), gast.Li("x"), gast.Cl(&gast.ClassSpec{Ranges: [][2]rune{{'0', '9'}}})))), r("T", gast.Plus(gast.C(gast.Li("1"), gast.L("a"), gast.Li("-"), gast.Cl(gast.Chars("k")))))),
		// one-byte literals that are not valid UTF-8 (they stand for U+FFFD) side by side
		mk(r("S", gast.Star(gast.C(gast.L("\xff"), gast.L("\xfe"), gast.L("a"), gast.Cl(gast.Chars("bÿ")))))),
		// non-ASCII one-rune literals merged into classes
		mk(r("S", gast.Plus(gast.C(gast.L("«"), gast.L("»"), gast.L("–"), gast.Cl(gast.Chars("ab")), gast.L("é"), gast.L("Â"))))),
		// one-rune literals that mean something inside a class, side by side in a choice
		mk(r("S", gast.Star(gast.C(gast.L("^"), gast.L("*"), gast.L("a")))), r("T", gast.Star(gast.C(gast.L("\\"), gast.L("/"))))),
		mk(r("S", gast.Star(gast.C(gast.L("]"), gast.L("x"), gast.L("-"), gast.L("z"), gast.L("[")))), r("T", gast.Star(gast.C(gast.L("a"), gast.L("-"), gast.L("c"), gast.L("\\"), gast.L("n"))))),
		mk(r("S", gast.Star(gast.C(gast.Li("^"), gast.Li("k"), gast.L("\""), gast.L("'"), gast.L("\n"), gast.L("\t"))))),
		// an outer recovery expression that throws a label only the inner operator lists (it runs at
		// the throw position, while the inner handler is still in force)
		mk(r("Stmt", gast.S(gast.Rec(gast.Ref("Item"), gast.Ref("RecA"), "L1"), gast.Star(gast.Dot()))), r("Item", gast.Rec(gast.C(gast.L("x"), gast.Thr("L1")), gast.Ref("RecB"), "L2")),
			r("RecA", gast.C(act(gast.L("?"), 1), gast.Thr("L2"))), r("RecB", act(gast.Dot(), 2))),
		// one host references a label-binding leaf rule both labelled and bare
		mk(r("S", gast.S(gast.Ref("Pair"), gast.Star(gast.S(gast.L(";"), gast.Ref("Pair"))), gast.NotE(gast.Dot()))),
			r("Pair", act(gast.S(gast.Lab("k", gast.Ref("Word")), gast.L("="), gast.Ref("Word")), 1)), r("Word", act(gast.Lab("w", gast.Plus(gast.Cl(gast.Chars("ab")))), 2))),
		// mixed i / non-i literals and classes in one choice
		mk(r("S", gast.Plus(gast.C(gast.L("a"), gast.Li("b"), gast.Cl(gast.Chars("c")), gast.Cl(&gast.ClassSpec{Chars: []rune("d"), IgnoreCase: true}), inv("abcdABCD"))))),
		// leaf rule with labels and an action, used twice in one host
		mk(r("S", act(gast.S(gast.Lab("a", gast.Ref("P")), gast.L(","), gast.Lab("b", gast.Ref("P"))), 1)), r("P", act(gast.S(gast.Lab("x", gast.Cl(gast.Chars("ab"))), gast.Lab("y", gast.Opt(gast.L("!")))), 2))),
		// identifier idiom: one leaf class inlined into several hosts that each merge something else into it
		mk(r("S", gast.S(gast.Ref("IdStart"), gast.Star(gast.Ref("IdPart")), gast.Opt(gast.S(gast.L("="), gast.Ref("KeyStart"))), gast.NotE(gast.Dot()))),
			r("IdStart", gast.C(gast.Ref("Letter"), gast.L("_"))), r("IdPart", gast.C(gast.Ref("Letter"), gast.Cl(&gast.ClassSpec{Ranges: [][2]rune{{'0', '9'}}}), gast.L("_"))),
			r("KeyStart", gast.C(gast.Ref("Letter"), gast.L("-"))), r("Letter", gast.Cl(&gast.ClassSpec{Ranges: [][2]rune{{'a', 'c'}}}))),
		mk(r("S", gast.Plus(gast.C(gast.Ref("A"), gast.Ref("B"), gast.Ref("D")))), r("A", gast.S(gast.L("<"), gast.C(gast.Ref("K"), gast.L("x")))), r("B", gast.S(gast.L(">"), gast.C(gast.L("y"), gast.Ref("K")))),
			r("D", gast.S(gast.L("!"), gast.C(gast.Ref("K"), gast.Cl(gast.Chars("z"))))), r("K", gast.Cl(gast.Chars("abc")))),
		// a leaf rule referenced directly and again inside a bare group of the same sequence
		mk(r("S", gast.S(gast.Ref("Span"), gast.Star(gast.S(gast.L(","), gast.Ref("Span"))), gast.NotE(gast.Dot()))),
			r("Span", gast.S(gast.Ref("Number"), gast.S(gast.L("-"), gast.Ref("Number")))), r("Number", act(gast.Plus(gast.Cl(gast.Chars("01"))), 1))),
		mk(r("S", gast.C(gast.S(gast.Ref("K"), gast.C(gast.L("x"), gast.C(gast.Ref("K"), gast.L("y")))), gast.Ref("K"))), r("K", gast.Cl(gast.Chars("ab")))),
		// nested recovery operators sharing a label (fall-through) and sibling operators
		mk(r("S", gast.Rec(gast.Rec(gast.S(gast.L("a"), gast.Ref("T")), act(gast.L("x"), 1), "L1"), act(gast.Dot(), 2), "L1", "L2")), r("T", gast.C(gast.L("b"), gast.Thr("L1")))),
		mk(r("S", gast.Rec(gast.Ref("I"), act(gast.Dot(), 2), "L1")), r("I", gast.Rec(gast.S(gast.L("a"), gast.C(gast.L("b"), gast.Thr("L1"))), act(gast.L("x"), 1), "L1"))),
		// a leaf rule referenced directly below a recovery operator and elsewhere in the same rule
		mk(r("S", gast.S(gast.Ref("Item"), gast.Star(gast.S(gast.L(","), gast.Rec(gast.Ref("Item"), gast.Ref("Rc"), "L1"))), gast.NotE(gast.Dot()))),
			r("Item", act(gast.Plus(gast.Cl(gast.Chars("ab"))), 1)), r("Rc", gast.Star(gast.Cl(&gast.ClassSpec{Chars: []rune(","), Inverted: true})))),
		mk(r("S", gast.Star(gast.C(gast.Rec(gast.Ref("K"), gast.Ref("K2"), "L1"), gast.S(gast.L("!"), gast.Ref("K"), gast.Ref("K2"))))), r("K", gast.C(gast.L("a"), gast.Thr("L1"))), r("K2", gast.Cl(gast.Chars("xy")))),
		// a one-letter general category next to a script / property whose name starts with the same
		// letter (\pL with Lao, \pN with Nko, \pC with Cyrillic, \pL with Latin): written so, merged from
		// alternatives, and through an inlined leaf rule; plain and inverted
		mk(r("S", gast.S(gast.Star(gast.C(gast.Cl(&gast.ClassSpec{UClasses: []string{"L", "Lao"}}), gast.L(" "))), gast.NotE(gast.Dot())))),
		mk(r("S", gast.S(gast.Star(gast.C(gast.Cl(&gast.ClassSpec{UClasses: []string{"L"}}), gast.Cl(&gast.ClassSpec{UClasses: []string{"Lao"}}), gast.L(" "))), gast.Star(gast.Dot())))),
		mk(r("S", gast.S(gast.Star(gast.C(gast.Ref("W"), gast.Ref("D"), gast.L("_"))), gast.Star(gast.Dot()))), r("W", gast.Cl(&gast.ClassSpec{UClasses: []string{"N"}})), r("D", gast.Cl(&gast.ClassSpec{UClasses: []string{"Nko"}}))),
		mk(r("S", gast.S(gast.Star(gast.Cl(&gast.ClassSpec{UClasses: []string{"L", "Latin"}, Inverted: true})), gast.Star(gast.Dot()))), r("X", gast.L("ªa1"))),
		mk(r("S", gast.S(act(gast.Plus(gast.Cl(&gast.ClassSpec{UClasses: []string{"C", "Cyrillic"}, Chars: []rune("-")})), 1), gast.Star(gast.Dot())))),
		// a leaf rule whose body is a recovery operator binding a label that the host binds as well: after
		// inlining, the operator's operands still have a label scope of their own (F26, fixed)
		mk(r("S", gast.A(gast.S(gast.Lab("v", gast.Ref("N")), gast.L("+"), gast.Ref("T"), gast.NotE(gast.Dot())), 1, mon.Spec{R: 3})),
			r("T", gast.Rec(gast.A(gast.Lab("v", gast.Ref("N")), 2, mon.Spec{R: 3}), gast.Star(gast.Dot()), "L1")), r("N", gast.A(gast.Plus(gast.Cl(&gast.ClassSpec{Ranges: [][2]rune{{'0', '9'}}})), 3, mon.Spec{R: 2}))),
		mk(r("S", gast.A(gast.S(gast.Lab("v", gast.Ref("N")), gast.Star(gast.S(gast.L(","), gast.Ref("T"))), gast.Lab("w", gast.Opt(gast.Ref("T")))), 1, mon.Spec{})),
			r("T", gast.Rec(gast.S(gast.Lab("v", gast.Cl(gast.Chars("ab"))), gast.Lab("w", gast.C(gast.L("!"), gast.Thr("L1")))), gast.A(gast.Lab("v", gast.L("?")), 2, mon.Spec{}), "L1")), r("N", gast.A(gast.Plus(gast.Cl(&gast.ClassSpec{Ranges: [][2]rune{{'0', '9'}}})), 3, mon.Spec{R: 2}))),
		// a leaf rule of the form  #{state change} e {action}  referenced bare in a sequence whose later
		// element fails, inside the body of * + ? (inlining puts the action expression itself there): the
		// change of the abandoned iteration is rolled back as it is without the optimizer
		mk(r("S", gast.S(gast.St(9, mon.Spec{S: 1}), gast.Star(gast.S(gast.Ref("It"), gast.L(","))), gast.Opt(gast.S(gast.Ref("It"), gast.L(";"))), gast.Plus(gast.C(gast.S(gast.Ref("It"), gast.L("!")), gast.Cl(gast.Chars("ab,;")))), gast.AndC(8, mon.Spec{}), gast.Star(gast.Dot()))),
			r("It", gast.A(gast.S(gast.St(7, mon.Spec{S: 1 | 2}), gast.Plus(gast.Cl(gast.Chars("ab")))), 1, mon.Spec{R: 2}))),
		// a class with one listed character AND Unicode classes next to literals (directly and through
		// inlined leaf rules): it is not a one-character matcher
		mk(r("S", gast.Star(gast.C(act(gast.S(gast.L("$"), gast.Cl(&gast.ClassSpec{Chars: []rune("_"), UClasses: []string{"L"}}), gast.Star(gast.Cl(&gast.ClassSpec{Chars: []rune("_"), UClasses: []string{"L", "Nd"}}))), 1),
			act(gast.S(gast.Ref("Sig"), gast.Ref("St"), gast.L(";")), 2), gast.S(gast.Cl(&gast.ClassSpec{Chars: []rune("a"), UClasses: []string{"Nd"}, IgnoreCase: true}), gast.Li("b")), gast.Dot()))),
			r("Sig", gast.L("#")), r("St", gast.Cl(&gast.ClassSpec{Chars: []rune("-"), UClasses: []string{"Lu"}}))),
		// a greedy repetition directly followed by an element with the same operand (e* e, e* e+, e? e+,
		// e+ e): order matters in a PEG - the repetition leaves nothing for its neighbour
		mk(r("S", gast.C(act(gast.S(gast.Star(gast.Ref("D")), gast.Ref("D"), gast.L("L")), 1), act(gast.S(gast.Opt(gast.L("_")), gast.Plus(gast.L("_")), gast.Ref("D")), 2),
			act(gast.S(gast.Star(gast.Ref("D")), gast.Plus(gast.Ref("D")), gast.L("!")), 3), act(gast.S(gast.Plus(gast.Cl(gast.Chars("ab"))), gast.Cl(gast.Chars("ab")), gast.L(";")), 4),
			act(gast.S(gast.Ref("D"), gast.Star(gast.Ref("D")), gast.Opt(gast.Ref("D")), gast.Star(gast.L("_")), gast.Star(gast.L("_"))), 5), gast.Star(gast.Dot()))),
			r("D", gast.Cl(&gast.ClassSpec{Ranges: [][2]rune{{'0', '9'}}}))),
		// keyword idiom: literals with and without i next to each other, some without cased characters
		mk(r("S", gast.S(gast.Li("select"), gast.L(" "), gast.Ref("N"), gast.L(" "), gast.Li("from"), gast.L(" "), gast.Ref("N"), gast.Opt(gast.S(gast.L(" "), gast.Li("order"), gast.Li(" by"), gast.L(" "), gast.Ref("N"))), gast.L(";"))),
			r("N", gast.Plus(gast.Cl(gast.Chars("ab"))))),
		// a leaf rule whose label has the same name as a label of its host
		mk(r("S", act(gast.S(gast.Lab("a", gast.L("x")), gast.Ref("L")), 1)), r("L", act(gast.Lab("a", gast.L("y")), 2))),
		// nested choices and sequences, singleton wrappers through rules
		mk(r("S", gast.S(gast.Ref("A"), gast.Ref("B"))), r("A", gast.C(gast.Ref("A1"), gast.C(gast.L("x"), gast.L("y")))), r("A1", gast.S(gast.L("a"), gast.S(gast.L("b"), gast.L("c")))), r("B", gast.Opt(gast.Ref("A1"))), r("Unused", gast.L("q"))),
	}
}

package checks

import (
	"encoding/json"
	"fmt"
	"os"
)

// Registry maps property ids to checks.
var Registry = map[string]func(*Ctx){
	"C01": C01,
	"C02": C02,
	"C03": C03,
	"C04": C04,
	"C05": C05,
	"C06": C06,
	"C07": C07,
	"C08": C08,
	"C09": C09,
	"C10": C10,
	"C11": C11,
	"C12": C12,
	"C13": C13,
	"C14": C14,
	"C15": C15,
	"C16": C16,
	"C17": C17,
	"C18": C18,
	"C19": C19,
	"C20": C20,
}

// Replay re-runs the case stored in a violation file against pigeon rebuilt from the current tree.
func Replay(path string) int {
	b, err := os.ReadFile(path)
	if err != nil {
		fmt.Fprintln(os.Stderr, err)
		return 2
	}
	var v Violation
	if err := json.Unmarshal(b, &v); err != nil {
		fmt.Fprintln(os.Stderr, err)
		return 2
	}
	return replay(&v)
}

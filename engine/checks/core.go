// Package checks holds one check per property plus the shared plumbing: evidence, violations,
// known findings, the build-and-run pipeline and the model comparison.
package checks

import (
	"bytes"
	"crypto/sha256"
	"encoding/hex"
	"encoding/json"
	"fmt"
	"hash/fnv"
	"math/rand"
	"os"
	"path/filepath"
	"regexp"
	"sort"
	"strings"
	"sync"
	"time"

	"verif/engine/batch"
	"verif/engine/gast"
	"verif/engine/mon"
)

// Ctx is the context of one check run.
type Ctx struct {
	Prop  string
	Tier  string
	Seed  int64
	W     *batch.Workspace
	Start time.Time

	mu         sync.Mutex
	cov        map[string]any
	samples    []any
	evals      int
	distinct   map[string]bool
	rule       string
	assume     []string
	viols      []*Violation
	violKeys   map[string]int
	known      []*KnownFinding
	knownHit   map[string]int
	inconcl    map[string]int
	broken     []string
	exhaustive bool
}

// Violation is a witness of a property violation.
type Violation struct {
	Prop    string         `json:"property"`
	Class   string         `json:"class"` // dedupe class (one VIOLATION line per class)
	Summary string         `json:"summary"`
	Grammar string         `json:"grammar,omitempty"`
	Flags   []string       `json:"flags,omitempty"`
	Input   []byte         `json:"input,omitempty"`
	InputQ  string         `json:"input_quoted,omitempty"`
	Case    *mon.Case      `json:"case,omitempty"`
	Want    any            `json:"expected,omitempty"`
	Got     any            `json:"observed,omitempty"`
	Extra   map[string]any `json:"extra,omitempty"`
	Seed    int64          `json:"seed"`
	Tier    string         `json:"tier"`
	Sig     []string       `json:"signatures,omitempty"` // known-finding signatures this witness matches
	Path    string         `json:"-"`
}

// NewCtx builds the workspace (compiling pigeon from the current tree).
func NewCtx(prop, tier string, seed int64) (*Ctx, error) {
	w, err := batch.NewWorkspace()
	if err != nil {
		return nil, err
	}
	c := &Ctx{Prop: prop, Tier: tier, Seed: seed, W: w, Start: time.Now(), cov: map[string]any{},
		distinct: map[string]bool{}, violKeys: map[string]int{}, knownHit: map[string]int{}, inconcl: map[string]int{}}
	kf, err := LoadKnown(filepath.Join(batch.VerifRoot, "known_findings.json"))
	if err != nil {
		w.Close()
		return nil, err
	}
	for _, k := range kf {
		if k.Property == prop {
			c.known = append(c.known, k)
			continue
		}
		for _, a := range k.Also {
			if a == prop {
				c.known = append(c.known, k)
			}
		}
	}
	return c, nil
}

// Quick reports whether this is the quick tier.
func (c *Ctx) Quick() bool { return c.Tier != "thorough" }

// N picks a size by tier.
func (c *Ctx) N(quick, thorough int) int {
	if c.Quick() {
		return quick
	}
	return thorough
}

// Eval counts evaluations.
func (c *Ctx) Eval(n int) {
	c.mu.Lock()
	c.evals += n
	c.mu.Unlock()
}

// Distinct registers a non-trivial distinct case by key.
func (c *Ctx) Distinct(key string) {
	c.mu.Lock()
	c.distinct[key] = true
	c.mu.Unlock()
}

// Cov sets a coverage key.
func (c *Ctx) Cov(key string, v any) {
	c.mu.Lock()
	c.cov[key] = v
	c.mu.Unlock()
}

// CovAdd adds to an integer coverage key.
func (c *Ctx) CovAdd(key string, n int) {
	c.mu.Lock()
	x, _ := c.cov[key].(int)
	c.cov[key] = x + n
	c.mu.Unlock()
}

// CovSet adds a member to a set-valued coverage key (stored as sorted list at the end).
func (c *Ctx) CovSet(key, member string) {
	c.mu.Lock()
	m, _ := c.cov[key].(map[string]int)
	if m == nil {
		m = map[string]int{}
		c.cov[key] = m
	}
	m[member]++
	c.mu.Unlock()
}

// Sample records a written-out case (bounded).
func (c *Ctx) Sample(v any) {
	c.mu.Lock()
	if len(c.samples) < 12 {
		c.samples = append(c.samples, v)
	}
	c.mu.Unlock()
}

// Rule sets the evidence "rule" text.
func (c *Ctx) Rule(s string) { c.rule = s }

// Assume records an assumption.
func (c *Ctx) Assume(s string) { c.assume = append(c.assume, s) }

// Inconclusive counts an inconclusive item.
func (c *Ctx) Inconclusive(kind string) {
	c.mu.Lock()
	c.inconcl[kind]++
	c.mu.Unlock()
}

// Broken marks the check run itself as broken (not a violation).
func (c *Ctx) Broken(msg string) {
	c.mu.Lock()
	c.broken = append(c.broken, msg)
	c.mu.Unlock()
}

// Exhaustive marks a finite sub-space as completely enumerated.
func (c *Ctx) Exhaustive() { c.exhaustive = true }

// Report records a violation unless it matches a known finding.
func (c *Ctx) Report(v *Violation) {
	v.Prop = c.Prop
	v.Seed = c.Seed
	v.Tier = c.Tier
	if v.Input != nil && v.InputQ == "" {
		v.InputQ = fmt.Sprintf("%q", v.Input)
	}
	c.mu.Lock()
	defer c.mu.Unlock()
	for _, k := range c.known {
		if k.Status != "known" {
			continue
		}
		for _, s := range v.Sig {
			if s == k.Signature {
				c.knownHit[k.ID]++
				return
			}
		}
	}
	c.violKeys[v.Class]++
	if c.violKeys[v.Class] > 1 {
		return
	}
	c.viols = append(c.viols, v)
}

// enoughAlready: the verdict is "violated" already and the run has been going for a long time (a
// change that makes parses hang costs a watchdog period per case): the remaining chunks are not
// run. It never turns a verdict around - it only applies once violations exist.
func (c *Ctx) enoughAlready() bool {
	if c.NViol() == 0 || time.Since(c.Start) < 12*time.Minute {
		return false
	}
	c.Cov("stopped_early_after_violations_min", int(time.Since(c.Start).Minutes()))
	return true
}

// NViol returns the number of violation classes so far.
func (c *Ctx) NViol() int {
	c.mu.Lock()
	defer c.mu.Unlock()
	return len(c.viols)
}

// Finish writes evidence and replays, prints the verdict lines and returns the exit code.
func (c *Ctx) Finish() int {
	defer c.W.Close()
	wall := time.Since(c.Start).Seconds()
	// known-finding witnesses are executed by the individual checks through RunKnownWitnesses;
	// here we only print what they reported.
	for _, k := range c.known {
		if k.Status == "known" && k.stillFails {
			fmt.Printf("KNOWN-FINDING: property=%s %s (witness still fails; %d generated cases matched its signature)\n", c.Prop, k.What, c.knownHit[k.ID])
		}
	}
	exit := 0
	rdir := filepath.Join(batch.VerifRoot, "replays", c.Prop)
	scratchRun := os.Getenv("PV_REPO") != "" || os.Getenv("PV_NOEVIDENCE") != ""
	if scratchRun {
		// seeded-break trials on a scratch worktree never touch the committed evidence/replays
		rdir = filepath.Join(os.TempDir(), "pv-seed-replays", c.Prop)
	}
	if len(c.viols) > 0 {
		os.MkdirAll(rdir, 0o755)
	}
	for i, v := range c.viols {
		h := sha256.Sum256([]byte(v.Class + v.Summary))
		v.Path = filepath.Join(rdir, fmt.Sprintf("%s-%d-%s.json", c.Tier, i, hex.EncodeToString(h[:4])))
		b, _ := json.MarshalIndent(v, "", " ")
		os.WriteFile(v.Path, b, 0o644)
		fmt.Printf("VIOLATION property=%s replay=%s\n", c.Prop, v.Path)
		fmt.Printf("  class=%s count=%d: %s\n", v.Class, c.violKeys[v.Class], v.Summary)
		exit = 1
	}
	cov := map[string]any{}
	for k, v := range c.cov {
		if m, ok := v.(map[string]int); ok {
			keys := make([]string, 0, len(m))
			for kk := range m {
				keys = append(keys, kk)
			}
			sort.Strings(keys)
			if len(keys) > 40 {
				cov[k+"_count"] = len(keys)
				mm := map[string]int{}
				for _, kk := range keys[:40] {
					mm[kk] = m[kk]
				}
				cov[k] = mm
				continue
			}
			cov[k] = m
			continue
		}
		cov[k] = v
	}
	cov["evaluations"] = c.evals
	cov["distinct_nontrivial"] = len(c.distinct)
	cov["rule"] = c.rule
	if len(c.samples) == 0 {
		c.samples = []any{}
	}
	cov["samples"] = c.samples
	if c.exhaustive {
		cov["exhaustive"] = true
	}
	if len(c.inconcl) > 0 {
		cov["inconclusive"] = c.inconcl
	}
	kh := map[string]int{}
	for _, k := range c.known {
		if k.Status == "known" {
			kh[k.ID] = c.knownHit[k.ID]
		}
	}
	if len(kh) > 0 {
		cov["known_finding_matches"] = kh
	}
	if c.assume == nil {
		c.assume = []string{}
	}
	ev := map[string]any{
		"property_id": c.Prop,
		"tier":        map[bool]string{true: "quick", false: "thorough"}[c.Quick()],
		"seed":        c.Seed,
		"level":       "exploration",
		"coverage":    cov,
		"assumptions": c.assume,
		"wall_s":      wall,
		"violations":  len(c.viols),
	}
	if len(c.broken) > 0 {
		ev["broken"] = c.broken
	}
	b, _ := json.MarshalIndent(ev, "", " ")
	if !scratchRun {
		os.MkdirAll(filepath.Join(batch.VerifRoot, "evidence"), 0o755)
		os.WriteFile(filepath.Join(batch.VerifRoot, "evidence", c.Prop+".json"), b, 0o644)
	}
	if len(c.broken) > 0 && exit == 0 {
		for _, m := range c.broken {
			fmt.Printf("BROKEN-CHECK property=%s %s\n", c.Prop, m)
		}
		exit = 2
	}
	if exit == 0 && (c.evals < 1 || len(c.distinct) < 2) {
		fmt.Printf("BROKEN-CHECK property=%s observed nothing (evaluations=%d distinct=%d)\n", c.Prop, c.evals, len(c.distinct))
		exit = 2
	}
	fmt.Printf("%s %s seed=%d: evaluations=%d distinct_nontrivial=%d violations=%d inconclusive=%v wall=%.1fs\n",
		c.Prop, c.Tier, c.Seed, c.evals, len(c.distinct), len(c.viols), c.inconcl, wall)
	return exit
}

// ----------------------------------------------------------------------------------------------

// Unit is one grammar generated under one flag set = one package of a batch.
type Unit struct {
	G      *gast.Grammar
	GIdx   int
	Flags  []string
	FlagID string
	IsLR   bool // the grammar has left recursion (pigeon emits the LR runtime with the flag)
	Pkg    string
	Text   string
	Gen    batch.GenResult
	Skip   bool   // not a meaningful unit (see Fail)
	OK     bool   // generated and compiled
	Fail   string // why not
	b      *batch.Batch
}

// HasFlag reports whether the unit was generated with the flag.
func (u *Unit) HasFlag(f string) bool {
	for _, x := range u.Flags {
		if x == f {
			return true
		}
	}
	return false
}

// Built is a set of compiled units grouped in batches.
type Built struct {
	Units   []*Unit
	batches []*batch.Batch
	c       *Ctx
}

var pkgRe = regexp.MustCompile(`\b(p\d{5})\b`)

// BuildUnits prints each grammar for each flag set, runs pigeon, compiles the packages in
// batches (all in parallel). Units that pigeon rejects or that do not compile are marked.
func (c *Ctx) BuildUnits(gs []*gast.Grammar, flagSets [][]string, race bool, isLR func(i int) bool) *Built {
	return c.buildUnitsBase(gs, flagSets, race, isLR, 0)
}

func (c *Ctx) buildUnitsBase(gs []*gast.Grammar, flagSets [][]string, race bool, isLR func(i int) bool, base int) *Built {
	bt := &Built{c: c}
	n := base
	for gi, g := range gs {
		for _, fs := range flagSets {
			n++
			if strings.Contains(strings.Join(fs, " "), "@") && len(g.Rules) > 0 {
				// entrypoint lists are written per grammar: @first / @last stand for its first / last rule
				fs = append([]string{}, fs...)
				for k := range fs {
					fs[k] = strings.NewReplacer("@first", g.Rules[0].Name, "@last", g.Rules[len(g.Rules)-1].Name).Replace(fs[k])
				}
			}
			u := &Unit{G: g, GIdx: gi, Flags: fs, FlagID: strings.Join(fs, " "), Pkg: fmt.Sprintf("p%05d", n)}
			if isLR != nil {
				u.IsLR = isLR(gi)
			}
			bt.Units = append(bt.Units, u)
		}
	}
	// generate
	parallel(len(bt.Units), 16, func(i int) {
		u := bt.Units[i]
		po := gast.PrintOpts{Pkg: u.Pkg}
		for k, f := range u.Flags {
			if f == "-receiver-name" && k+1 < len(u.Flags) {
				po.Receiver = u.Flags[k+1]
			}
		}
		u.Text = gast.Print(u.G, po)
		u.Gen = c.W.Gen(u.Text, u.Flags...)
		if u.Gen.Exit != 0 {
			u.Fail = fmt.Sprintf("pigeon exit %d: %s", u.Gen.Exit, firstLine(u.Gen.Stderr))
		} else if u.G.UsesState && u.HasFlag("-optimize-parser") && u.HasFlag("-optimize-grammar") && !bytes.Contains(u.Gen.Stdout, []byte("statePool")) {
			// -optimize-grammar removed every rule with a state block, so -optimize-parser dropped the
			// state store that the harness' blocks still read: documented behaviour, not a finding
			u.Skip = true
			u.Fail = "skipped: all state blocks were optimised away while code blocks still read c.state"
		}
	})
	// batches
	const B = 40
	var ok []*Unit
	for _, u := range bt.Units {
		if u.Fail == "" {
			ok = append(ok, u)
		}
	}
	var groups [][]*Unit
	for i := 0; i < len(ok); i += B {
		j := i + B
		if j > len(ok) {
			j = len(ok)
		}
		groups = append(groups, ok[i:j])
	}
	bt.batches = make([]*batch.Batch, len(groups))
	parallel(len(groups), 4, func(gi int) {
		grp := groups[gi]
		for attempt := 0; attempt < 6 && len(grp) > 0; attempt++ {
			b := c.W.NewBatch(race)
			b.Timeout = 8
			for _, u := range grp {
				opt := u.HasFlag("-optimize-parser")
				b.Add(&batch.Pkg{Name: u.Pkg, Src: u.Gen.Stdout, Optimized: opt, InitInput: u.InitInput(),
					HasState: u.G.UsesState || !opt,
					HasMemo:  !opt || (u.IsLR && u.HasFlag("-support-left-recursion"))})
			}
			out, err := b.Build()
			if err == nil {
				for _, u := range grp {
					u.OK = true
					u.b = b
				}
				bt.batches[gi] = b
				return
			}
			b.Remove()
			bad := map[string]bool{}
			for _, m := range pkgRe.FindAllString(out, -1) {
				bad[m] = true
			}
			if len(bad) == 0 {
				for _, u := range grp {
					u.Fail = "batch build failed: " + firstLine(out)
				}
				c.Broken("batch build failed without naming a package: " + firstLine(out))
				return
			}
			var keep []*Unit
			for _, u := range grp {
				if bad[u.Pkg] {
					u.Fail = "compile error: " + errLinesFor(out, u.Pkg)
				} else {
					keep = append(keep, u)
				}
			}
			grp = keep
		}
	})
	return bt
}

func errLinesFor(out, pkg string) string {
	var ls []string
	for _, l := range strings.Split(out, "\n") {
		if strings.Contains(l, pkg) && !strings.HasPrefix(l, "#") {
			ls = append(ls, strings.TrimSpace(l))
			if len(ls) >= 3 {
				break
			}
		}
	}
	return strings.Join(ls, " | ")
}

func firstLine(s string) string {
	s = strings.TrimSpace(s)
	if i := strings.IndexByte(s, '\n'); i >= 0 {
		rest := strings.TrimSpace(s[i+1:])
		if j := strings.IndexByte(rest, '\n'); j >= 0 {
			rest = rest[:j]
		}
		return s[:i] + " " + rest
	}
	return s
}

// Run executes cases (Case.Pkg must name a compiled unit) and returns results by case id.
func (bt *Built) Run(cases []*mon.Case, ro batch.RunOpts) map[string]*mon.Result {
	byBatch := map[*batch.Batch][]*mon.Case{}
	pkgBatch := map[string]*batch.Batch{}
	for _, u := range bt.Units {
		if u.OK {
			pkgBatch[u.Pkg] = u.b
		}
	}
	for _, cs := range cases {
		if b := pkgBatch[cs.Pkg]; b != nil {
			byBatch[b] = append(byBatch[b], cs)
		}
	}
	var bs []*batch.Batch
	for b := range byBatch {
		bs = append(bs, b)
	}
	res := map[string]*mon.Result{}
	var mu sync.Mutex
	parallel(len(bs), 12, func(i int) {
		r, err := bs[i].Run(byBatch[bs[i]], ro)
		if err != nil {
			bt.c.Broken("child run: " + err.Error())
		}
		mu.Lock()
		for k, v := range r {
			res[k] = v
		}
		mu.Unlock()
	})
	return res
}

// Close removes the batch directories.
func (bt *Built) Close() {
	for _, b := range bt.batches {
		if b != nil {
			b.Remove()
		}
	}
}

func parallel(n, workers int, f func(i int)) {
	if n == 0 {
		return
	}
	if workers > n {
		workers = n
	}
	var wg sync.WaitGroup
	ch := make(chan int)
	for w := 0; w < workers; w++ {
		wg.Add(1)
		go func() {
			defer wg.Done()
			for i := range ch {
				f(i)
			}
		}()
	}
	for i := 0; i < n; i++ {
		ch <- i
	}
	close(ch)
	wg.Wait()
}

var runOptsDefault = batch.RunOpts{}

// Vet runs go vet over every batch and returns the output lines per package.
func (bt *Built) Vet() map[string][]string {
	out := map[string][]string{}
	var mu sync.Mutex
	parallel(len(bt.batches), 4, func(i int) {
		b := bt.batches[i]
		if b == nil {
			return
		}
		o, _ := b.GoCmd("vet", "./...")
		mu.Lock()
		for _, l := range strings.Split(o, "\n") {
			if m := pkgRe.FindString(l); m != "" && !strings.HasPrefix(l, "#") {
				out[m] = append(out[m], strings.TrimSpace(l))
			}
		}
		mu.Unlock()
	})
	return out
}

// InitInput is the input the in-package harness parses while the package is being initialised: a
// sentence of the grammar drawn from a generator seeded by the grammar.
func (u *Unit) InitInput() []byte {
	if u.G == nil || len(u.G.Rules) == 0 {
		return []byte("a")
	}
	h := fnv.New64a()
	// seeded by the grammar itself, not by the unit's text: the text names the unit's package, and the
	// flag variants of one grammar (compared with each other in C15) must parse the same sentence
	h.Write([]byte(gast.Short(u.G)))
	return u.G.Sentence(rand.New(rand.NewSource(int64(h.Sum64()>>1))), u.G.Rules[0].Name, u.G.Alphabet(), 6)
}

package checks

import (
	"sync"
	"bytes"
	"context"
	"fmt"
	"go/parser"
	"go/token"
	"math/rand"
	"os"
	"os/exec"
	"path/filepath"
	"regexp"
	"strings"
	"sync/atomic"
	"time"

	"verif/engine/batch"
	"verif/engine/gast"
)

var c13FlagCombos = [][]string{
	{}, {"-optimize-grammar"}, {"-optimize-parser"}, {"-optimize-basic-latin"}, {"-support-left-recursion"}, {"-nolint"}, {"-cache"}, {"-x"},
	{"-no-recover"}, {"-receiver-name", "p"}, {"-receiver-name", "self"}, {"-debug"},
	{"-optimize-grammar", "-optimize-parser"}, {"-optimize-grammar", "-support-left-recursion"}, {"-optimize-grammar", "-optimize-basic-latin", "-nolint"},
	{"-optimize-parser", "-support-left-recursion", "-optimize-basic-latin"}, {"-optimize-grammar", "-alternate-entrypoints", "R1"},
	{"-optimize-grammar", "-alternate-entrypoints", "Nope"}, {"-alternate-entrypoints", "R0,R1"}, {"-cache", "-optimize-grammar"},
	{"-optimize-grammar", "-optimize-parser", "-optimize-basic-latin", "-support-left-recursion", "-nolint"}, {"-x", "-optimize-grammar"},
	{"-no-recover", "-optimize-grammar"}, {"-support-left-recursion", "-cache"},
	{"-alternate-entrypoints", "Nope,R1"}, {"-alternate-entrypoints", "R1,Nope,R0"}, {"-alternate-entrypoints", "Nope", "-alternate-entrypoints", "R1"}, {"-optimize-grammar", "-alternate-entrypoints", "R0", "-alternate-entrypoints", "R1"},
}

var tokRe = regexp.MustCompile(`[\pL_][\pL\p{Nd}_]*|"(?:[^"\\]|\\.)*"|'(?:[^'\\]|\\.)*'|\[(?:[^\]\\]|\\.)*\]|//\{|<-|\s+|.`)

var c13Panic = regexp.MustCompile(`(?m)^panic: |goroutine \d+ \[running\]|^fatal error: |SIGSEGV|runtime error:`)

func mutateText(r *rand.Rand, text string) string {
	toks := tokRe.FindAllString(text, -1)
	if len(toks) == 0 {
		return text
	}
	n := 1 + r.Intn(3)
	for i := 0; i < n; i++ {
		k := r.Intn(len(toks))
		switch r.Intn(8) {
		case 0:
			toks = append(toks[:k], toks[k+1:]...)
		case 1:
			toks = append(toks[:k+1], toks[k:]...)
		case 2:
			j := r.Intn(len(toks))
			toks[k], toks[j] = toks[j], toks[k]
		case 3:
			toks[k] = []string{"{", "}", "(", ")", "[", "]", "\"", "'", "`", "/", "//{", "%{", "&", "!", "#", "*", "+", "?", ":", ";", "=", "<-", "\\", "\n", "i", ".", "^", "\\p{", "\\u12", "\\x", "\\8",
				"[\\p{Lu]", "[\\p{", "[\\pL", "[a-", "[^", "[\\p{Lu}", "\\p", "]]", "[[]", "//{L}", "%{", "`",
				" \"a\\qc\" ", " 'b\\400' ", " \"\\u00G0\" ", " \"\xff\" ", " [\\q] ", " \"a\nb\" "}[r.Intn(49)]
		case 4:
			toks[k] = toks[k] + toks[k]
		case 5:
			if len(toks[k]) > 1 {
				toks[k] = toks[k][:r.Intn(len(toks[k]))]
			}
		case 6:
			toks[k] = string([]byte{byte(r.Intn(256))})
		case 7:
			toks[k] = []string{"Undefined", "R0", "R1", "c", "nil", "package", "\x00", "\xff\xfe", "é", "%{L1}", "//{L1} 'r'", "&{ return true, nil }", "#{ return nil }", "{ return nil, nil }"}[r.Intn(14)]
		}
		if len(toks) == 0 {
			return ""
		}
	}
	return strings.Join(toks, "")
}

// C13: the tool is total.
func C13(c *Ctx) {
	c.Rule("grammar texts: valid grammars from every profile (PEG, state, throw/recover, left-recursive, rule-reference graphs, optimiser triggers); token-level mutations of them (drop/duplicate/swap/replace tokens, unbalanced braces/quotes/brackets, truncated escapes, injected throw/recover/code blocks, undefined and reserved names); semantic near-misses that still parse (undefined rule references, duplicate rules, rules referencing only themselves, empty classes); raw random bytes and invalid UTF-8; " +
		"each run under one of 24 flag combinations (every flag and many pairs, unknown entrypoints, -x, -debug, -no-recover), grammar via file or stdin, output via -o or stdout. " +
		"oracle over (exit status, stdout, stderr, CPU time, output file): terminates (CPU budget 30 s; a wall timeout without CPU overrun is inconclusive); exit 0 => stderr empty and the output is a complete Go file (go/parser accepts it, it defines Parse) or nothing with -x; exit != 0 => documented status, a diagnostic on stderr, and no Go panic trace (with -no-recover a trace is accepted only where the same text without the flag is a parse error). " +
		"distinct_nontrivial = distinct (text, flags) that reached the optimizer/builder (exit 0 or build error) or were rejected by the front-end with a positioned diagnostic")
	rng := rand.New(rand.NewSource(c.Seed*1543 + 13))
	type job struct {
		text  []byte
		flags []string
		stdin bool
		ofile bool
		kind  string
	}
	var bases []string
	plain := func(g *gast.Grammar) string {
		g.Finalize()
		return gast.Print(g, gast.PrintOpts{Pkg: "p", Plain: true})
	}
	profs := []*gast.Profile{pegProfile(), stateProfile(), throwProfile(), optProfile()}
	nb := c.N(300, 3000)
	for i := 0; i < nb; i++ {
		switch i % 6 {
		case 4:
			bases = append(bases, plain(genRefGraph(rng, true)))
		case 5:
			bases = append(bases, plain(genLR(rng, i%12 == 5)))
		default:
			bases = append(bases, plain(gast.Generate(rng, profs[i%4])))
		}
	}
	nearMiss := []string{
		"{\npackage p\n}\nA <- B\n", "{\npackage p\n}\nA <- 'a'\nA <- 'b'\n", "{\npackage p\n}\nA <- A\n", "{\npackage p\n}\nA <- [] [^]\n", "A <- 'a'\n",
		"{\npackage p\n}\nA <- %{L} //{L} 'x' //{M} %{M}\n", "{\npackage p\n}\nA <- x:(%{L}) //{L} B\nB <- A?\n", "{\npackage p\n}\nA <- B C\nB <- C?\nC <- B*\n",
		"{\npackage p\n}\nA <- ('a' //{L} 'b') / Undefined\n", "{\npackage p\n}\nA <- a:'x' a:'y' { return nil, nil }\n", "{\npackage p\n}\nA <- c:'x' { return c, nil }\n",
		"{\npackage p\n}\nA <- 'x' { this is not go }\n", "{\npackage p\n}\nA \"\" <- ''\n", "", "\n\n", "{\npackage p\n}\n", "{", "A", "A <-", "A <- 'a", "A <- [a", "A <- \"\\u12\"", "A <- 'a' //{", "A <- %{",
		"{\npackage p\n}\nA <- B\nB <- C\nC <- D\nD <- A / 'x'\n",
		// cycles of rules whose bodies are bare references, reachable from the first rule or not
		"{\npackage p\n}\nA <- B\nB <- A\n", "{\npackage p\n}\nA <- 'x'\nB <- C\nC <- D\nD <- B\n", "{\npackage p\n}\nA <- B 'x' / C\nB <- C\nC <- B\n", "{\npackage p\n}\nA <- (B)\nB <- a:A\nC <- (((C)))\n",
		"A = [\\p{Lu]]\n", "A = [\\p{Lu]\n", "A = [\\p{]\n", "A = [\\p", "A = [\\pX]\n", "A = [\\p{Nope}]\n", "A = [a-\n", "A = [\\", "A = [\\x4]\n", "A = [a\\u12]\n", "A = [^\n", "A = []]\n", "A = [\\p{Lu}\\p{\n",
		// a literal with an error directly after a rule reference / before a rule operator (the front-end looks ahead over it)
		"A <- B \"a\\qc\"\nB <- 'b'\n", "A <- B \"unterminated", "A <- B\nB \"bad\\q name\" <- 'b'\n", "A <- B 'x\xffy'\nB <- 'b'\n", "A <- B \"\\u12\" C\nB <- 'b'\nC <- 'c'\n", "A <- b:B [\\q]\nB <- 'b'\n",
		// runes whose case folding crosses the Basic Latin boundary
		"{\npackage p\n}\nA <- [K\u017f\u0130\u0131\u212a]i [\u212a-\u212b]i '\u017f'i \"\u212a\"i [^\u0130]i [\u00b5\u03bc\u1e9e\u00df]i\n",
		// runes whose two cases have different encoded lengths, literally and as escapes
		"{\npackage p\n}\nA <- \"\u023a\"i '\u023e'i \"\\u023a\\U0000023E\"i [\u023a\u2c65]i \"\u023a\u023e\u023a\u023e\u023a\"i \"x\u0130\u212a\u023a\"i \"\u2c65\u2c66\"i\n",
		// nested repetition / option operators, literally and through an inlined leaf rule
		"{\npackage p\n}\nA <- ('a'?)* 'b'\n", "{\npackage p\n}\nA <- Sep+ 'x' (Sep*)* (Sep?)? ('y'*)+\nSep <- ' '?\n", "{\npackage p\n}\nA <- (('a'+)?)* (B*)?\nB <- 'b'*\n",
		// a recovery operator around a bare matcher / throw / predicate, its recovery expression starting with a rule reference
		"{\npackage p\n}\nA <- ',' //{e} Skip\nSkip <- [^,]*\n", "{\npackage p\n}\nA <- %{e} //{e} Junk 'x'\nJunk <- .\n", "{\npackage p\n}\nA <- x:'a'? //{e} B / &{ return true, nil } //{e} B\nB <- A / 'b'\n",
		// code blocks that are empty up to blank space and line ends
		"{\npackage p\n}\nA <- 'a' {\n\n}\n", "{\npackage p\n}\nA <- 'a' {\r\n\n}\n", "{\npackage p\n}\nA <- 'a' {}\n", "{\npackage p\n}\nA <- 'a' {\n} B\nB <- &{\n\n} #{ \n } !{\t}\n", "{\n\n}\nA <- 'a'\n", "{}\nA <- 'a' { \r }\n",
		// a dash next to a Unicode class escape inside a class
		"A = [0-9_-\\pL]\n", "A = [a-\\pL]\n", "A = [a\\pL-z]\n", "A = [\\pL-]\n", "A = [-\\pL]\n", "A = [a-\\p{Lu}-z]i\n", "A = [^\\p{Nd}-\\p{Lu}]\n",
		"A = 'ab'\n", "A = ''\n", "A = \"\\U00110000\"\n", "A = \"\\ud800\"\n", "A = `unterminated\n", "A = \"a\" /* unterminated\n", "A = \"a\" { if x { }\n", "A = %{L\n", "A = \"a\" //{L,} \"b\"\n", "A = \"a\" //{} \"b\"\n", "{\npackage p\n}\nA <- &A 'a' / 'b'\n", "{\npackage p\n}\nA <- !. / W A\nW <- [ \\t]*\n",
	}
	// densely cross-referencing (but not left-recursive) rule graphs: analyses that walk the
	// reference graph must not take time exponential in the number of rules
	for _, n := range []int{12, 15, 18} {
		var sb strings.Builder
		sb.WriteString("{\npackage p\n}\n")
		for i := 0; i < n; i++ {
			fmt.Fprintf(&sb, "D%d <- \"t%d\" ( ", i, i)
			for k := 0; k < n; k++ {
				if k > 0 {
					sb.WriteString(" / ")
				}
				fmt.Fprintf(&sb, "D%d", (i+k+1)%n)
			}
			sb.WriteString(" )? x:D" + fmt.Sprint((i+3)%n) + "* \"e\"\n")
		}
		nearMiss = append(nearMiss, sb.String())
	}
	var jobs []job
	pickFlags := func() []string { return c13FlagCombos[rng.Intn(len(c13FlagCombos))] }
	refRe := regexp.MustCompile(`\bR\d\b|\bE\d\b|\bAt\b`)
	for _, b := range bases {
		jobs = append(jobs, job{[]byte(b), pickFlags(), rng.Intn(2) == 0, rng.Intn(2) == 0, "valid"})
		// semantic near-miss that still parses: one rule reference renamed to an undefined rule
		if locs := refRe.FindAllStringIndex(b, -1); len(locs) > 1 {
			l := locs[1+rng.Intn(len(locs)-1)]
			nb := b[:l[0]] + "Undefined" + b[l[1]:]
			fl := pickFlags()
			if rng.Intn(2) == 0 {
				fl = []string{"-optimize-grammar"}
			}
			jobs = append(jobs, job{[]byte(nb), fl, rng.Intn(2) == 0, rng.Intn(2) == 0, "undefined-ref"})
		}
		for k := 0; k < c.N(5, 14); k++ {
			jobs = append(jobs, job{[]byte(mutateText(rng, b)), pickFlags(), rng.Intn(2) == 0, rng.Intn(2) == 0, "mutated"})
		}
	}
	for _, t := range nearMiss {
		for _, f := range c13FlagCombos {
			if c.Quick() && rng.Intn(3) != 0 {
				continue
			}
			jobs = append(jobs, job{[]byte(t), f, rng.Intn(2) == 0, rng.Intn(2) == 0, "nearmiss"})
		}
	}
	for i := 0; i < c.N(400, 4000); i++ {
		b := make([]byte, rng.Intn(200))
		for k := range b {
			if rng.Intn(3) == 0 {
				b[k] = byte(rng.Intn(256))
			} else {
				const pool = "AB <-='\"[]{}()/*+?!&#%.:;\n abc\\pLi^-"
				b[k] = pool[rng.Intn(len(pool))]
			}
		}
		jobs = append(jobs, job{b, pickFlags(), rng.Intn(2) == 0, rng.Intn(2) == 0, "random"})
	}
	// texts that make the front-end record hundreds of errors: long runs of malformed bytes inside a
	// literal, hundreds of rules with a bad escape each, kilobytes of noise
	{
		many := []string{"A <- \"" + strings.Repeat("\xff", 150) + "\"\n", "A <- '" + strings.Repeat("\xc3\x28", 400) + "'\n", "A <- [" + strings.Repeat("\xfe", 700) + "]\n"}
		var sb strings.Builder
		for k := 0; k < 320; k++ {
			fmt.Fprintf(&sb, "R%d <- \"\\q%d\" '\\%c' [\\w]\n", k, k, "jkq!"[k%4])
		}
		many = append(many, sb.String(), sb.String()[:sb.Len()/3])
		noise := make([]byte, 6000)
		for k := range noise {
			noise[k] = byte(rng.Intn(256))
		}
		many = append(many, string(noise), "A <- 'x'\n"+string(noise[:3000]))
		for _, bom := range []string{"\xff\xfe", "\xfe\xff", "\xef\xbb\xbf", "\xff\xfe\x00\x00", "\x00\x00\xfe\xff"} {
			many = append(many, bom, bom+"A", bom+"A\x00", bom+"A <- 'a'\n", bom+"A\x00 \x00<\x00-\x00 \x00'\x00a\x00'\x00\n\x00", bom+"A\x00 \x00<\x00-\x00 \x00'\x00a\x00'\x00\n")
		}
		// texts that end, without a final newline, in a multi-byte character (an identifier, a comment) or in
		// stray continuation bytes - also under -debug, whose trace looks at the input around the position
		for _, t := range []string{"A <- 'a' B\nB <- 'b' // été", "A ← 'a' Bé\nBé ← 'b' / 'c' Bé", "Règle <- 'abcdefghijklmnop' // €", "A <- 'a' 'bcdefghijklmnop'\x80\xbf", "A <- 'abcdefghijklmnopq' B\nB <- [α-ω]+ 'x'\n// ←"} {
			for _, f := range [][]string{{"-debug"}, {"-debug", "-cache"}, {"-debug", "-optimize-grammar"}, {}} {
				jobs = append(jobs, job{[]byte(t), f, false, true, "multibyte-end"}, job{[]byte(t), f, true, false, "multibyte-end"})
			}
		}
		for i, t := range many {
			for _, f := range [][]string{{}, {"-cache"}, {"-optimize-grammar", "-optimize-parser"}} {
				jobs = append(jobs, job{[]byte(t), f, i%2 == 0, i%3 == 0, "many-errors"})
			}
		}
	}
	// deeply nested groups under -cache: the front-end's own parse is memoized there and takes linear
	// time (without -cache the pinned tree is exponential in the nesting depth - it terminates, but not
	// within any CPU budget one would want to wait for, so those texts only run with the flag)
	for _, d := range []int{18, 30, 75} {
		inner := "'a' / \"bb\" [0-9]+ / x:[a-z]* { return x, nil } / !. 'c'? / &'d' . 'e'+ / 'k'i \"long literal number one\" / [^\\n]+ 'q' / R1 'z' / \"another alternative that makes the group long\"i"
		if d == 75 {
			inner = "'a'"
		}
		text := "{\npackage p\n}\nR0 <- " + strings.Repeat("( ", d) + inner + strings.Repeat(" )", d) + "\nR1 <- 'r'\n"
		for _, f := range [][]string{{"-cache"}, {"-cache", "-x"}, {"-cache", "-optimize-grammar"}} {
			jobs = append(jobs, job{[]byte(text), f, d%2 == 0, false, "nested-cache"})
		}
	}
	// every Unicode class name the front-end accepts (enumerated through the hook), under the flags
	// that treat classes specially
	if hook, err := c.W.Hooked(); err == nil {
		res := c.W.RunPigeon(hook, nil, 30*time.Second, []string{"PIGEON_VERIF_MODE=uclasses"})
		names := strings.Fields(string(res.Stdout))
		for lo := 0; lo < len(names); lo += 40 {
			hi := lo + 40
			if hi > len(names) {
				hi = len(names)
			}
			var sb strings.Builder
			sb.WriteString("{\npackage p\n}\n")
			for i, n := range names[lo:hi] {
				fmt.Fprintf(&sb, "U%d <- [\\p{%s}] [^\\p{%s}a]i\n", lo+i, n, n)
			}
			for _, f := range [][]string{{}, {"-optimize-basic-latin"}, {"-optimize-grammar", "-optimize-basic-latin"}, {"-optimize-parser", "-optimize-basic-latin", "-support-left-recursion"}} {
				jobs = append(jobs, job{[]byte(sb.String()), f, true, false, "unicode-classes"})
			}
		}
	}
	scratch := filepath.Join(c.W.Dir, "c13")
	os.MkdirAll(scratch, 0o755)
	var seq atomic.Int64
	run := func(j job, flags []string) (res batch.GenResult, outData []byte, outExists bool) {
		n := seq.Add(1)
		args := append([]string{}, flags...)
		ofile := filepath.Join(scratch, fmt.Sprintf("out%d.go", n))
		useO := j.ofile || hasFlag(flags, "-debug")
		if useO {
			args = append(args, "-o", ofile)
			if n%3 == 0 {
				// the output path already holds an older, much longer generated file (regenerating in place)
				os.WriteFile(ofile, []byte("package old\n\n"+strings.Repeat("// old generated line\nvar _ = 0\n", 20000)), 0o644)
			}
		}
		var stdin []byte
		if j.stdin {
			stdin = j.text
		} else {
			gf := filepath.Join(scratch, fmt.Sprintf("g%d.peg", n))
			os.WriteFile(gf, j.text, 0o644)
			defer os.Remove(gf)
			args = append(args, gf)
		}
		ctx, cancel := context.WithTimeout(context.Background(), 75*time.Second)
		defer cancel()
		// address-space limit: a runaway allocation must crash pigeon, not the machine
		shArgs := append([]string{"-c", "ulimit -v 6000000; exec \"$0\" \"$@\"", c.W.Pigeon}, args...)
		cmd := exec.CommandContext(ctx, "/bin/sh", shArgs...)
		cmd.Stdin = bytes.NewReader(stdin)
		var so, se bytes.Buffer
		cmd.Stdout = &so
		cmd.Stderr = &se
		cmd.Dir = scratch
		cmd.Env = append(c.W.Env(), "GOMEMLIMIT=2GiB")
		cmd.Run()
		res = batch.GenResult{Stdout: so.Bytes(), Stderr: se.String()}
		if cmd.ProcessState != nil {
			res.Exit = cmd.ProcessState.ExitCode()
			res.CPU = cmd.ProcessState.UserTime() + cmd.ProcessState.SystemTime()
		}
		if ctx.Err() != nil || res.Exit == -1 {
			res.Killed = true
		}
		if useO {
			outData, err := os.ReadFile(ofile)
			os.Remove(ofile)
			return res, outData, err == nil
		}
		return res, res.Stdout, true
	}
	documented := map[int]bool{1: true, 2: true, 3: true, 4: true, 5: true, 6: true, 7: true, 8: true, 9: true}
	var suspectMu sync.Mutex
	var suspects []int
	defer func() {
		for n, i := range suspects {
			if n >= 4 {
				// (each second run may take the full wall limit: four of them decide, the rest is only counted)
				c.Inconclusive("cpu_overrun_not_run_a_second_time")
				continue
			}
			j := jobs[i]
			res, _, _ := run(j, j.flags)
			if res.Killed && res.CPU > 30*time.Second {
				c.Report(&Violation{Class: "C13/hang", Summary: fmt.Sprintf("pigeon does not terminate (%.0f s CPU consumed, killed; the same on a second run made alone); flags %v stdin=%t -o=%t; text %q", res.CPU.Seconds(), j.flags, j.stdin, j.ofile, truncBytes(j.text, 400)),
					Grammar: string(j.text), Flags: j.flags, Input: j.text, Extra: map[string]any{"kind": j.kind}, Sig: c13Sig(j.text, j.flags, res)})
			} else {
				c.Inconclusive("cpu_overrun_not_reproduced_when_run_alone")
			}
		}
	}()
	parallel(len(jobs), 16, func(i int) {
		j := jobs[i]
		res, out, outExists := run(j, j.flags)
		c.Eval(1)
		// (with -x pigeon only parses and never opens the output, so an older file stays as it is)
		if outExists && res.Exit == 0 && !hasFlag(j.flags, "-x") && bytes.Contains(out, []byte("old generated line")) {
			c.Report(&Violation{Class: "C13/stale-output", Summary: fmt.Sprintf("pigeon -o wrote over an existing longer file and left part of the old content behind (exit 0, %d bytes in the file); flags %v; text %q", len(out), j.flags, truncBytes(j.text, 300)),
				Grammar: string(j.text), Flags: j.flags, Input: j.text})
		}
		c.CovSet("exit_status", fmt.Sprint(res.Exit))
		c.CovSet("input_kind", j.kind)
		report := func(class, msg string) {
			c.Report(&Violation{Class: "C13/" + class, Summary: fmt.Sprintf("%s; flags %v stdin=%t -o=%t; text %q", msg, j.flags, j.stdin, j.ofile, truncBytes(j.text, 400)),
				Grammar: string(j.text), Flags: j.flags, Input: j.text, Extra: map[string]any{"exit": res.Exit, "stderr": trunc(res.Stderr), "kind": j.kind},
				Sig: c13Sig(j.text, j.flags, res)})
		}
		if res.Killed {
			if res.CPU > 30*time.Second {
				// decided by a second run of the same case, alone, after the parallel phase (on a machine that
				// is overloaded many times over even a 20 ms run has been seen to be charged 40 s)
				suspectMu.Lock()
				suspects = append(suspects, i)
				suspectMu.Unlock()
			} else {
				c.Inconclusive("wall_timeout_without_cpu_overrun")
			}
			return
		}
		trace := c13Panic.MatchString(res.Stderr)
		if trace {
			if hasFlag(j.flags, "-no-recover") {
				// accepted only where the text is a parse error without the flag
				var f2 []string
				for _, f := range j.flags {
					if f != "-no-recover" {
						f2 = append(f2, f)
					}
				}
				r2, _, _ := run(j, f2)
				if r2.Exit == 3 {
					c.CovAdd("no_recover_traces_on_parse_errors", 1)
					return
				}
			}
			report("panic", fmt.Sprintf("pigeon crashes with a Go panic trace (exit %d): %s", res.Exit, firstLine(res.Stderr)))
			return
		}
		if res.Exit == 0 {
			// "a grammar that is rejected never produces exit status 0": whether the text is a grammar at
			// all (front-end verdict, exit 3) cannot depend on the flags
			if len(j.flags) > 0 && j.kind != "valid" && j.kind != "unicode-classes" && !hasFlag(j.flags, "-h") {
				if r2, _, _ := run(j, nil); !r2.Killed && r2.Exit == 3 {
					c.CovAdd("accepted_texts_rerun_without_flags", 1)
					report("rejected-grammar-accepted", fmt.Sprintf("exit status 0 with flags %v for a text the front-end rejects without flags (exit 3: %s)", j.flags, firstLine(r2.Stderr)))
					return
				}
				c.CovAdd("accepted_texts_rerun_without_flags", 1)
			}
			if hasFlag(j.flags, "-debug") {
				c.Distinct(fmt.Sprintf("%x%v", j.text, j.flags))
				return // -debug prints the front-end's trace; only termination and exit status are checked
			}
			if strings.TrimSpace(res.Stderr) != "" {
				report("diagnostic-with-exit-0", "exit status 0 together with a diagnostic: "+firstLine(res.Stderr))
				return
			}
			if hasFlag(j.flags, "-x") || hasFlag(j.flags, "-h") {
				return
			}
			c.Distinct(fmt.Sprintf("%x%v", j.text, j.flags))
			if !outExists {
				report("no-output", "exit status 0 but no output file was written")
				return
			}
			// the initializer is the user's: without a package clause in it the output is a file
			// fragment (pigeon formats it with Fragment: true); accept both forms
			fs := token.NewFileSet()
			if _, err := parser.ParseFile(fs, "out.go", out, 0); err != nil {
				if _, err2 := parser.ParseFile(fs, "out.go", append([]byte("package p\n"), out...), 0); err2 != nil {
					report("incomplete-output", "exit status 0 but the output is not parseable Go: "+err.Error())
					return
				}
			}
			if !bytes.Contains(out, []byte("func Parse(")) {
				report("incomplete-output", "exit status 0 but the output does not define Parse")
			}
			return
		}
		if !documented[res.Exit] {
			report("exit-status", fmt.Sprintf("undocumented exit status %d: %s", res.Exit, firstLine(res.Stderr)))
			return
		}
		if strings.TrimSpace(res.Stderr) == "" {
			report("silent-failure", fmt.Sprintf("exit status %d without any diagnostic", res.Exit))
			return
		}
		if res.Exit == 3 && strings.Contains(res.Stderr, "(") || res.Exit == 5 {
			c.Distinct(fmt.Sprintf("%x%v", j.text, j.flags))
		}
	})
	// a destination that opens but cannot take the bytes (/dev/full: every write fails with ENOSPC, the
	// close succeeds): pigeon wrote no parser, so it must say so and exit non-zero
	if fi, err := os.Stat("/dev/full"); err == nil && fi.Mode()&os.ModeCharDevice != 0 {
		nfull := 0
		for _, b := range bases {
			if nfull >= c.N(6, 40) {
				break
			}
			gf := filepath.Join(scratch, fmt.Sprintf("full%d.peg", nfull))
			os.WriteFile(gf, []byte(b), 0o644)
			if r0 := c.W.Gen(b); r0.Exit != 0 {
				continue
			}
			for v, fl := range [][]string{{}, {"-optimize-parser"}, {"-optimize-grammar", "-nolint"}} {
				for _, viaO := range []bool{true, false} {
					args := append([]string{}, fl...)
					if viaO {
						args = append(args, "-o", "/dev/full")
					}
					args = append(args, gf)
					ctx, cancel := context.WithTimeout(context.Background(), 75*time.Second)
					cmd := exec.CommandContext(ctx, c.W.Pigeon, args...)
					var se bytes.Buffer
					cmd.Stderr = &se
					cmd.Dir = scratch
					cmd.Env = c.W.Env()
					var full *os.File
					if !viaO {
						full, _ = os.OpenFile("/dev/full", os.O_WRONLY, 0)
						cmd.Stdout = full
					}
					cmd.Run()
					cancel()
					if full != nil {
						full.Close()
					}
					c.Eval(1)
					c.CovAdd("runs_with_an_output_that_cannot_be_written", 1)
					exit := -1
					if cmd.ProcessState != nil {
						exit = cmd.ProcessState.ExitCode()
					}
					if exit == 0 {
						c.Report(&Violation{Class: "C13/unwritten-output-exit-0", Summary: fmt.Sprintf("pigeon exits 0 although not a byte of the parser could be written (output %s is /dev/full, every write fails with ENOSPC); flags %v; stderr %q; text %q", map[bool]string{true: "-o", false: "stdout"}[viaO], fl, trunc(se.String()), truncBytes([]byte(b), 300)),
							Grammar: b, Flags: args[:len(args)-1], Input: []byte(b)})
					} else if c13Panic.MatchString(se.String()) || strings.TrimSpace(se.String()) == "" {
						c.Report(&Violation{Class: "C13/unwritten-output-diagnostic", Summary: fmt.Sprintf("output to /dev/full: exit %d with %q instead of a diagnostic naming the cause; flags %v", exit, trunc(se.String()), fl), Grammar: b, Flags: args[:len(args)-1], Input: []byte(b)})
					}
					_ = v
				}
			}
			nfull++
		}
	} else {
		c.CovAdd("dev_full_not_available", 1)
	}
	c.Cov("runs", len(jobs))
	c.Sample(map[string]any{"text": fmt.Sprintf("%q", truncBytes(jobs[len(jobs)/3].text, 300)), "flags": jobs[len(jobs)/3].flags, "kind": jobs[len(jobs)/3].kind})
	c.Sample(map[string]any{"text": fmt.Sprintf("%q", truncBytes(jobs[len(jobs)-1].text, 300)), "flags": jobs[len(jobs)-1].flags, "kind": jobs[len(jobs)-1].kind})
}

func c13Sig(text []byte, flags []string, res batch.GenResult) []string { return nil }

func hasFlag(fs []string, f string) bool {
	for _, x := range fs {
		if x == f {
			return true
		}
	}
	return false
}

func truncBytes(b []byte, n int) []byte {
	if len(b) > n {
		return b[:n]
	}
	return b
}

package checks

import (
	"strings"
	"fmt"
	"math/rand"
	"unicode"
	"unicode/utf8"

	"verif/engine/gast"
	"verif/engine/mon"
)

// c15Runes: all 128 Basic Latin runes (exhaustive) plus a fixed set of non-ASCII runes aimed at
// case folding (case pairs, Kelvin sign, long s, dotted/dotless i, sharp s, Greek final sigma,
// titlecase letters, members of the Unicode classes in use).
func c15Inputs() [][]byte {
	var out [][]byte
	for r := rune(0); r < 128; r++ {
		out = append(out, []byte(string(r)))
	}
	extra := []rune{0x80, 0xA0, 0xAA, 0xB5, 0xBA, 0xC0, 0xC9, 0xD7, 0xDF, 0xE0, 0xE9, 0xF7, 0xFF, 0x100, 0x101, 0x130, 0x131, 0x149, 0x17F, 0x180,
		0x1C4, 0x1C5, 0x1C6, 0x1F0, 0x2B0, 0x345, 0x370, 0x391, 0x3A3, 0x3B1, 0x3C2, 0x3C3, 0x3F4, 0x410, 0x430, 0x4E00, 0x660, 0x2160, 0x2170,
		0x212A, 0x212B, 0x1E9E, 0x2000, 0x2028, 0x3000, 0xFF21, 0xFF41, 0xFFFD, 0x10400, 0x10428, 0x1F600, 0x10FFFF, 0xAC00, 0x5D0, 0x627, 0x905}
	for _, r := range extra {
		out = append(out, []byte(string(r)))
	}
	for _, b := range gast.InvalidSeqs {
		out = append(out, b)
	}
	out = append(out, []byte{})
	return out
}

func c15Class(r *rand.Rand) *gast.ClassSpec {
	c := &gast.ClassSpec{}
	pool := []rune("AZaz09_ kK-^\t~@[`{éÉßſıİµ")
	pick1 := func() rune {
		if r.Intn(3) == 0 {
			return rune(r.Intn(128))
		}
		return pool[r.Intn(len(pool))]
	}
	ok := func(x rune) bool {
		return x != '\n' && x != utf8.RuneError && unicode.IsPrint(x) || x == '\t' || x == ' '
	}
	n := 1 + r.Intn(3)
	for i := 0; i < n; i++ {
		switch r.Intn(5) {
		case 0, 1:
			x := pick1()
			if ok(x) {
				c.Chars = append(c.Chars, x)
			}
		case 2, 3:
			lo, hi := pick1(), pick1()
			if r.Intn(4) == 0 {
				hi = []rune{0x80, 0xFF, 0x17F, 0x24F, 0x3FF, 0xFFFF, 0x10FFFF}[r.Intn(7)]
			}
			if lo > hi {
				lo, hi = hi, lo
			}
			if ok(lo) && (ok(hi) || hi > 0x7f) {
				c.Ranges = append(c.Ranges, [2]rune{lo, hi})
			}
		case 4:
			us := []string{"L", "Lu", "Ll", "Lt", "N", "Nd", "P", "S", "Z", "Zs", "Latin", "Greek", "Cyrillic", "White_Space", "ASCII_Hex_Digit", "Cc", "Sm", "Common", "Hex_Digit"}
			c.UClasses = append(c.UClasses, us[r.Intn(len(us))])
		}
	}
	if len(c.Chars)+len(c.Ranges)+len(c.UClasses) == 0 {
		c.Chars = []rune{'a'}
	}
	c.Inverted = r.Intn(3) == 0
	c.IgnoreCase = r.Intn(2) == 0
	return c
}

// C15: -optimize-basic-latin is a pure optimisation of character classes.
func C15(c *Ctx) {
	c.Rule("grammars of single-class rules Ck <- <class> !. over the full class region (arbitrary chars, ranges with mixed-case endpoints or spanning the case blocks or crossing U+0080, Unicode classes incl. case-sensitive ones, ^ and i in all combinations); " +
		"each class is run, through Entrypoint, on ALL 128 Basic Latin runes (exhaustive), 56 non-ASCII runes chosen for case folding, 12 invalid byte sequences and the empty input, in default and AllowInvalidUTF8 mode; " +
		"oracle = differential: parser generated with -optimize-basic-latin vs parser generated without (match, value, end, error text), also with -optimize-parser on both sides. " +
		"distinct_nontrivial = distinct (class, rune) pairs where the class matches (reference side)")
	c.Assume("classes are sampled; the 128 Basic Latin runes are enumerated completely for every sampled class")
	c.Exhaustive()
	rng := rand.New(rand.NewSource(c.Seed*131 + 15))
	nClasses := c.N(400, 8000)
	per := 16
	var gs []*gast.Grammar
	fixed := c15Fixed()
	// every Unicode class name the front-end accepts (enumerated through the hook), alone, inverted
	// and case-insensitive: the table's entry for each of the 128 runes is decided for all of them
	if hook, err := c.W.Hooked(); err == nil {
		names := c03UClasses(c, hook)
		for _, n := range names {
			fixed = append(fixed, &gast.ClassSpec{UClasses: []string{n}}, &gast.ClassSpec{UClasses: []string{n}, Inverted: true}, &gast.ClassSpec{UClasses: []string{n}, IgnoreCase: true})
		}
		c.Cov("unicode_class_names_swept", len(names))
	} else {
		c.Broken(err.Error())
	}
	total := nClasses + len(fixed)
	for len(gs)*per < total {
		g := &gast.Grammar{}
		for k := 0; k < per; k++ {
			var cl *gast.ClassSpec
			if len(fixed) > 0 {
				cl, fixed = fixed[0], fixed[1:]
			} else {
				cl = c15Class(rng)
			}
			g.Rules = append(g.Rules, &gast.Rule{Name: fmt.Sprintf("C%d", k), Expr: gast.S(gast.Cl(cl), gast.NotE(gast.Dot()))})
		}
		gs = append(gs, g)
	}
	// the same classes as direct operands of * and + (a run of class matches is a code path of its own)
	// on strings that hold U+FFFD, invalid bytes and non-ASCII runes
	rep := map[*gast.Grammar]bool{}
	nRep := 0
	for _, g0 := range gs {
		if nRep >= c.N(6, 40) {
			break
		}
		g := &gast.Grammar{}
		for k, ru := range g0.Rules {
			cl := ru.Expr.Subs[0].Clone()
			var e *gast.Expr
			if k%2 == 0 {
				e = gast.S(gast.Star(cl), gast.NotE(gast.Dot()))
			} else {
				e = gast.S(gast.L("<"), gast.Plus(cl), gast.Opt(gast.L(">")), gast.NotE(gast.Dot()))
			}
			g.Rules = append(g.Rules, &gast.Rule{Name: ru.Name, Expr: e})
		}
		rep[g] = true
		gs = append(gs, g)
		nRep++
	}
	// and as the direct operand of & and ! (every Basic Latin rune enumerated, like the plain matcher)
	for gi, g0 := range gs {
		if gi >= c.N(6, 40) {
			break
		}
		g := &gast.Grammar{}
		for k, ru := range g0.Rules {
			cl := ru.Expr.Subs[0].Clone()
			e := gast.S(gast.AndE(cl), gast.Dot(), gast.NotE(gast.Dot()))
			if k%2 == 1 {
				e = gast.S(gast.NotE(cl), gast.Dot(), gast.NotE(gast.Dot()))
			}
			g.Rules = append(g.Rules, &gast.Rule{Name: ru.Name, Expr: e})
		}
		gs = append(gs, g)
	}
	var repInputs [][]byte
	for _, x := range []string{"\ufffd", "\xff", "\x80", "é", "a", "\"", "~", "\u212a", "7"} {
		for _, f := range []string{"%s", "a%sb", "%s%s", "<%s>", "<a%s", "<%s%sz>", "\"%s\""} {
			repInputs = append(repInputs, []byte(strings.ReplaceAll(f, "%s", x)))
		}
	}
	inputs := c15Inputs()
	c.Cov("runes_per_class", len(inputs))
	c.Cov("basic_latin_runes_enumerated", 128)
	cfg := &DiffConfig{
		Grammars: gs,
		Variants: [][]string{{}, {"-optimize-basic-latin"}, {"-optimize-parser"}, {"-optimize-parser", "-optimize-basic-latin"}},
		Cases: func(gi int, g *gast.Grammar) []*mon.Case {
			var cs []*mon.Case
			// the parse the harness made while the package was being initialised (tables that are filled
			// at start-up must be there before anything of the package can be called)
			cs = append(cs, &mon.Case{InitProbe: true, NoTrace: true})
			if rep[g] {
				for _, ru := range g.Rules {
					for _, in := range repInputs {
						cs = append(cs, &mon.Case{Input: in, Entry: ru.Name, NoTrace: true})
						if !utf8.Valid(in) {
							cs = append(cs, &mon.Case{Input: in, Entry: ru.Name, AllowInvalid: true, NoTrace: true})
						}
					}
				}
				return cs
			}
			for _, ru := range g.Rules {
				for ii, in := range inputs {
					cs = append(cs, &mon.Case{Input: in, Entry: ru.Name, NoTrace: true})
					if ii >= 128 && !utf8.Valid(in) {
						cs = append(cs, &mon.Case{Input: in, Entry: ru.Name, AllowInvalid: true, NoTrace: true})
					}
				}
			}
			return cs
		},
		Compare: func(a, b *mon.Result, cs *mon.Case, g *gast.Grammar) []diff {
			ds := stdCompare(false, false)(a, b, cs, g)
			for i := range ds {
				if ru := g.Rule(cs.Entry); ru != nil {
					ds[i].want = fmt.Sprintf("class %s on %q: %v", gast.ExprString(g, ru.Expr), cs.Input, ds[i].want)
				} else {
					ds[i].want = fmt.Sprintf("parse made while the package was being initialised (first rule %s): %v", gast.ExprString(g, g.Rules[0].Expr), ds[i].want)
				}
			}
			return ds
		},
		NonTrivial: func(r *mon.Result, cs *mon.Case) bool { return r.ErrNil },
		OnRef: func(gi int, g *gast.Grammar, cs *mon.Case, r *mon.Result) {
			if r.ErrNil {
				c.CovAdd("class_rune_matches", 1)
			} else {
				c.CovAdd("class_rune_mismatches", 1)
			}
		},
		Chunk: 40,
	}
	c.CovAdd("classes", len(gs)*per)
	c.Sample(map[string]any{"classes_of_first_grammar": gast.Short(gs[0])})
	c.DiffCheck(cfg)
	c.c15General()
}

// c15General: the flag only changes how a character class decides - so whole grammars, in which
// classes stand at the start of sequences below lookaheads, choices, repetitions and rule references,
// must parse every input alike with and without it (whatever the generated code derives from the tables).
func (c *Ctx) c15General() {
	rng := rand.New(rand.NewSource(c.Seed*389 + 15))
	mk := func(rules ...*gast.Rule) *gast.Grammar { return &gast.Grammar{Rules: rules} }
	r := func(n string, e *gast.Expr) *gast.Rule { return &gast.Rule{Name: n, Expr: e} }
	dig := func() *gast.Expr { return gast.Cl(&gast.ClassSpec{Ranges: [][2]rune{{'0', '9'}}}) }
	az := func() *gast.Expr { return gast.Cl(&gast.ClassSpec{Ranges: [][2]rune{{'a', 'z'}}, Chars: []rune("_")}) }
	gs := []*gast.Grammar{
		mk(r("S", gast.S(gast.Star(gast.C(gast.S(gast.NotE(gast.S(gast.Plus(dig()), gast.L("."))), gast.Plus(dig())), gast.S(gast.Plus(dig()), gast.L("."), gast.Star(dig())), gast.S(gast.AndE(gast.S(az(), gast.L("("))), gast.Plus(az()), gast.L("(")), gast.Plus(az()), gast.L(" "))), gast.NotE(gast.Dot())))),
		mk(r("S", gast.S(gast.Star(gast.C(gast.S(gast.NotE(gast.Ref("Kw")), gast.Ref("Id")), gast.Ref("Kw"), gast.S(gast.NotE(gast.S(gast.Cl(&gast.ClassSpec{Chars: []rune("+-")}), dig())), gast.Cl(gast.Chars("+-*/"))), gast.S(gast.Opt(gast.Cl(gast.Chars("+-"))), gast.Plus(dig())), gast.L(" "))), gast.Star(gast.Dot()))),
			r("Kw", gast.S(gast.C(gast.L("if"), gast.L("in")), gast.NotE(az()))), r("Id", gast.S(az(), gast.Star(gast.C(az(), dig()))))),
	}
	// classes that stand only in a recovery expression (written there, or a leaf rule that -optimize-grammar
	// inlines there), next to classes elsewhere; the label is thrown on ordinary inputs
	gs = append(gs,
		mk(r("S", gast.S(gast.Ref("It"), gast.Star(gast.S(gast.L(","), gast.Ref("It"))), gast.NotE(gast.Dot()))),
			r("It", gast.Rec(gast.C(gast.Plus(az()), gast.Thr("L1")), gast.Star(gast.Cl(&gast.ClassSpec{Chars: []rune(","), Inverted: true})), "L1"))),
		mk(r("S", gast.S(gast.Star(gast.C(gast.Rec(gast.S(gast.L("<"), gast.C(gast.Plus(dig()), gast.Thr("L1")), gast.L(">")), gast.S(gast.Star(gast.Cl(gast.Chars("ab_"))), gast.Opt(gast.Cl(gast.Chars(">")))), "L1"), gast.L(" "))), gast.Star(gast.Dot())))))
	p := pegProfile()
	p.W[gast.Class] = 30
	p.W[gast.Not] = 14
	p.W[gast.And] = 10
	for i := 0; i < c.N(40, 500); i++ {
		gs = append(gs, gast.Generate(rng, p))
	}
	cfg := &DiffConfig{
		Grammars: gs,
		Variants: [][]string{{}, {"-optimize-basic-latin"}},
		Cases: func(gi int, g *gast.Grammar) []*mon.Case {
			var cs []*mon.Case
			for _, in := range c.inputsFor(g, rng, c.N(40, 100), c.N(80, 400), false) {
				cs = append(cs, &mon.Case{Input: in, MaxExpr: 400000, MaxEvents: 200})
			}
			return cs
		},
		Compare:      stdCompare(true, true),
		NonTrivial:   func(r *mon.Result, cs *mon.Case) bool { return r.ErrNil },
		SkipNotBuilt: true,
		Chunk:        50,
	}
	c.CovAdd("general_grammars_with_and_without_the_flag", len(gs))
	c.DiffCheck(cfg)
}

// c15Fixed are classes where the two paths apply case folding differently.
// c15Sized: classes that list exactly n single characters in no particular order, for n around the
// sizes at which an implementation might switch its lookup strategy (8, 16, 32, 64), plain,
// caseless and inverted, with and without a range next to them.
func c15Sized() []*gast.ClassSpec {
	pool := []rune("+*/%&|^<>=!~?:;-_.,#@$'\"()[]{}zqkxwvbnmasdfgZQKXWVBNMéßΩλж0918273645")
	var out []*gast.ClassSpec
	for _, n := range []int{7, 8, 9, 15, 16, 17, 31, 32, 33, 63, 64, 65} {
		for v := 0; v < 3; v++ {
			// a deterministic shuffle of the pool per (n, v)
			p := append([]rune{}, pool...)
			x := uint32(n*31 + v*7 + 1)
			for i := len(p) - 1; i > 0; i-- {
				x = x*1664525 + 1013904223
				j := int(x>>8) % (i + 1)
				p[i], p[j] = p[j], p[i]
			}
			cs := &gast.ClassSpec{Chars: p[:n], IgnoreCase: v == 1, Inverted: v == 2}
			out = append(out, cs)
			if v == 0 {
				out = append(out, &gast.ClassSpec{Chars: p[:n], Ranges: [][2]rune{{'c', 'e'}}})
			}
		}
	}
	return out
}

func c15Fixed() []*gast.ClassSpec {
	return append(c15Sized(), []*gast.ClassSpec{
		// a range followed by a range nested in it / touching it / overlapping it
		{Ranges: [][2]rune{{'a', 'z'}, {'d', 'f'}}},
		{Ranges: [][2]rune{{'!', '~'}, {'0', '9'}}, Inverted: true},
		{Ranges: [][2]rune{{'a', 'z'}, {'A', 'F'}}, IgnoreCase: true},
		{Ranges: [][2]rune{{'a', 'f'}, {'g', 'z'}}},
		{Ranges: [][2]rune{{'a', 'm'}, {'h', 'z'}, {'0', '5'}, {'3', '4'}}},
		{Ranges: [][2]rune{{'A', 'z'}}, IgnoreCase: true},
		{Ranges: [][2]rune{{'Z', 'a'}}, IgnoreCase: true},
		{UClasses: []string{"Lu"}, IgnoreCase: true},
		{UClasses: []string{"Ll"}, Chars: []rune{'é'}, IgnoreCase: true, Inverted: true},
		{Ranges: [][2]rune{{']', 0x10FFFF}}},
		{Ranges: [][2]rune{{' ', 0x80}}, Inverted: true},
		{Chars: []rune{'K', 'ſ'}, IgnoreCase: true},
		{Chars: []rune{0x212A}, IgnoreCase: true},
	}...)
}

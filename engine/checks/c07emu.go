package checks

import (
	"sort"

	"verif/engine/gast"
)

// pigeonLR emulates pigeon's own left-recursion analysis (flags computed by a visit in sorted
// rule order, a rule met again while being visited counts as non-nullable, throw is nullable and
// begins with nothing, a recovery operator begins with its guarded or its recovery expression).
// It is used ONLY to classify known findings: F13 = "the cycle is found when every alternative of
// a choice is visited, and lost when the visit stops at the first nullable alternative" (which is
// what pigeon does). It never decides a violation.
type pigeonLR struct {
	g            *gast.Grammar
	shortCircuit bool
	flag         map[*gast.Expr]bool
	ruleNull     map[string]bool
	visiting     map[string]bool
}

func (p *pigeonLR) visitRule(name string) bool {
	r := p.g.Rule(name)
	if r == nil {
		return false
	}
	if p.visiting[name] {
		return false
	}
	p.visiting[name] = true
	p.ruleNull[name] = p.visit(r.Expr)
	p.visiting[name] = false
	return p.ruleNull[name]
}

func (p *pigeonLR) visit(e *gast.Expr) bool {
	var n bool
	switch e.Kind {
	case gast.Choice:
		for _, a := range e.Subs {
			if p.visit(a) {
				n = true
				if p.shortCircuit {
					break
				}
			}
		}
	case gast.Seq:
		n = true
		for _, s := range e.Subs {
			if !p.visit(s) {
				n = false
				break
			}
		}
	case gast.Action, gast.Labeled:
		n = p.visit(e.Subs[0])
	case gast.And, gast.Not, gast.ZeroOrOne, gast.ZeroOrMore:
		p.visit(e.Subs[0])
		n = true
	case gast.OneOrMore:
		p.visit(e.Subs[0])
		n = false
	case gast.RuleRef:
		n = p.visitRule(e.Name)
	case gast.Lit:
		n = e.Val == ""
	case gast.AndCode, gast.NotCode, gast.StateCode, gast.Throw:
		n = true
	case gast.Recovery:
		a := p.visit(e.Subs[0])
		n = a || p.visit(e.Subs[1]) // Go's || short-circuits here as well
	}
	p.flag[e] = n
	return n
}

func (p *pigeonLR) isNullable(e *gast.Expr) bool {
	switch e.Kind {
	case gast.And, gast.Not, gast.ZeroOrOne, gast.ZeroOrMore, gast.AndCode, gast.NotCode, gast.StateCode, gast.Throw:
		return true
	case gast.Lit:
		return e.Val == ""
	case gast.Labeled:
		return p.isNullable(e.Subs[0])
	}
	return p.flag[e]
}

func (p *pigeonLR) names(e *gast.Expr, m map[string]bool) {
	switch e.Kind {
	case gast.Choice:
		for _, a := range e.Subs {
			p.names(a, m)
		}
	case gast.Seq:
		for _, s := range e.Subs {
			p.names(s, m)
			if !p.isNullable(s) {
				break
			}
		}
	case gast.Action, gast.Labeled, gast.And, gast.Not, gast.ZeroOrOne, gast.ZeroOrMore, gast.OneOrMore:
		p.names(e.Subs[0], m)
	case gast.RuleRef:
		m[e.Name] = true
	case gast.Recovery:
		p.names(e.Subs[0], m)
		p.names(e.Subs[1], m)
	}
}

// pigeonSeesCycle reports whether pigeon's analysis, with or without the choice short-circuit,
// finds a left-recursive cycle.
func pigeonSeesCycle(g *gast.Grammar, shortCircuit bool) bool {
	p := &pigeonLR{g: g, shortCircuit: shortCircuit, flag: map[*gast.Expr]bool{}, ruleNull: map[string]bool{}, visiting: map[string]bool{}}
	var names []string
	for _, r := range g.Rules {
		names = append(names, r.Name)
	}
	sort.Strings(names)
	for _, n := range names {
		p.visitRule(n)
	}
	first := map[string]map[string]bool{}
	for _, r := range g.Rules {
		m := map[string]bool{}
		p.names(r.Expr, m)
		first[r.Name] = m
	}
	for _, r := range g.Rules {
		seen := map[string]bool{}
		stack := []string{}
		for n := range first[r.Name] {
			stack = append(stack, n)
		}
		for len(stack) > 0 {
			n := stack[len(stack)-1]
			stack = stack[:len(stack)-1]
			if n == r.Name {
				return true
			}
			if seen[n] {
				continue
			}
			seen[n] = true
			for k := range first[n] {
				stack = append(stack, k)
			}
		}
	}
	return false
}

package checks

import (
	"bytes"
	"crypto/sha256"
	"fmt"
	"math/rand"
	"os"
	"path/filepath"
	"sort"
	"strings"
	"time"

	"verif/engine/batch"
	"verif/engine/gast"
	"verif/engine/mon"
)

// genRefGraph draws a grammar that is all about the rule-reference graph: 1-6 rules whose
// alternatives put rule references after every kind of nullable prefix, behind predicates, in
// later alternatives of choices whose earlier alternatives are nullable, next to consuming
// look-alikes. Used by C07 (detection) and C19 (map-order independence of the analyses).
func genRefGraph(r *rand.Rand, withBlocks bool) *gast.Grammar {
	return genRefGraphTR(r, withBlocks, false)
}

// genRefGraphTR optionally adds throw / recover to the mix.
func genRefGraphTR(r *rand.Rand, withBlocks, throwRecover bool) *gast.Grammar {
	n := 1 + r.Intn(6)
	names := make([]string, n)
	for i := range names {
		names[i] = fmt.Sprintf("R%d", i)
	}
	if r.Intn(2) == 0 {
		// names whose sorted order differs from the definition order (the analyses visit rules by name)
		pool := []string{"_", "Zed", "a", "Expr", "M1", "ws", "B", "__", "x9"}
		perm := r.Perm(len(pool))
		for i := range names {
			names[i] = pool[perm[i]]
		}
	}
	id := 0
	nid := func() int { id++; return id }
	term := func() *gast.Expr {
		switch r.Intn(5) {
		case 0:
			return gast.L(string(rune('a' + r.Intn(3))))
		case 1:
			return gast.Cl(gast.Chars("ab"))
		case 2:
			return gast.Cl(&gast.ClassSpec{Chars: []rune("a"), Inverted: true})
		case 3:
			return gast.Plus(gast.L("a"))
		}
		return gast.Dot()
	}
	ref := func() *gast.Expr { return gast.Ref(names[r.Intn(n)]) }
	nullablePrefix := func() *gast.Expr {
		inner := func() *gast.Expr {
			if r.Intn(3) == 0 {
				return ref()
			}
			return term()
		}
		switch r.Intn(9) {
		case 0:
			return gast.Opt(inner())
		case 1:
			return gast.Star(term())
		case 2:
			return gast.AndE(inner())
		case 3:
			return gast.NotE(inner())
		case 4:
			if withBlocks {
				return gast.AndC(nid(), mon.Spec{})
			}
			return gast.Opt(term())
		case 5:
			if withBlocks {
				return gast.St(nid(), mon.Spec{S: 1})
			}
			return gast.Star(term())
		case 6:
			return gast.L("")
		case 7:
			return gast.Opt(gast.S(inner(), term()))
		}
		if r.Intn(2) == 0 {
			// a reference behind a nullable item inside an optional / repeated group
			grp := gast.S(gast.Opt(term()), ref(), term())
			if r.Intn(2) == 0 {
				grp = gast.S(ref(), ref(), term())
			}
			if r.Intn(2) == 0 {
				return gast.Opt(grp)
			}
			return gast.Star(grp)
		}
		return gast.C(term(), gast.L(""))
	}
	var item func() *gast.Expr
	item = func() *gast.Expr {
		if throwRecover {
			switch r.Intn(8) {
			case 0:
				return gast.Thr([]string{"L1", "L2"}[r.Intn(2)])
			case 1:
				g := item()
				if g.Kind == gast.Throw {
					g = gast.C(term(), g)
				}
				rec := item()
				if rec.Kind == gast.Throw || rec.Kind == gast.Recovery {
					rec = ref()
				}
				return gast.Rec(g, rec, []string{"L1", "L2"}[r.Intn(2)])
			}
		}
		switch r.Intn(10) {
		case 0, 1, 2:
			return term()
		case 3, 4, 5:
			return ref()
		default:
			return nullablePrefix()
		}
	}
	alt := func() *gast.Expr {
		k := 1 + r.Intn(3)
		if k == 1 {
			return item()
		}
		var items []*gast.Expr
		for i := 0; i < k; i++ {
			items = append(items, item())
		}
		return gast.S(items...)
	}
	g := &gast.Grammar{}
	for i := 0; i < n; i++ {
		k := 1 + r.Intn(3)
		var e *gast.Expr
		if k == 1 {
			e = alt()
		} else {
			var alts []*gast.Expr
			for j := 0; j < k; j++ {
				a := alt()
				if a.Kind == gast.Choice {
					a = term()
				}
				alts = append(alts, a)
			}
			e = gast.C(alts...)
		}
		g.Rules = append(g.Rules, &gast.Rule{Name: names[i], Expr: e})
	}
	g.Finalize()
	return g
}

// genDenseLR draws a left-recursive grammar whose first-call graph is one dense component: a hub,
// a chain of n rules with skip edges (thousands of distinct cycles), a rule that lies on all
// cycles but one and sorts before the hub, and a small side cycle.
func genDenseLR(r *rand.Rand) *gast.Grammar {
	n := 11 + r.Intn(5)
	t := func(i int) string { return fmt.Sprintf("T%02d", i) }
	g := &gast.Grammar{}
	g.Rules = append(g.Rules, &gast.Rule{Name: "Hub", Expr: gast.C(gast.S(gast.Ref(t(1)), gast.L("x")), gast.S(gast.Ref("Zed"), gast.L("y")), gast.L("h"))})
	for i := 1; i <= n; i++ {
		var alts []*gast.Expr
		for k := 1; k <= 3; k++ {
			if i+k <= n {
				alts = append(alts, gast.S(gast.Ref(t(i+k)), gast.L(string(rune('a'+k)))))
			}
		}
		if i+1 > n {
			alts = append(alts, gast.S(gast.Ref("Aux"), gast.L("e")))
		}
		alts = append(alts, gast.L(string(rune('A'+i%26))))
		g.Rules = append(g.Rules, &gast.Rule{Name: t(i), Expr: gast.C(alts...)})
	}
	g.Rules = append(g.Rules, &gast.Rule{Name: "Aux", Expr: gast.C(gast.S(gast.Ref("Hub"), gast.L("u")), gast.L("v"))})
	g.Rules = append(g.Rules, &gast.Rule{Name: "Zed", Expr: gast.C(gast.S(gast.Ref("Hub"), gast.L("z")), gast.L("w"))})
	g.Finalize()
	return g
}

// C19: generation is deterministic.
func C19(c *Ctx) {
	R := c.N(10, 40)
	K := c.N(6, 16)
	c.Rule(fmt.Sprintf("every (grammar, flag set) is generated by %d independent runs of the pigeon binary (each process gets fresh map seeds) and %d times inside one process (hook mode multibuild of the -tags verif build); oracle: exactly one SHA-256 over (exit status, output bytes) across the runs, one digest inside the process, and the two agree. ", R, K) +
		"Workload: every checked-in .peg under its Makefile flags and under -support-left-recursion -optimize-grammar; generated rule-reference graphs (mutually recursive nullable rules, cycles with several leader candidates), left-recursive expression grammars, grammars with many leaf rules to inline and unused rules to remove. " +
		"distinct_nontrivial = distinct (grammar, flag set) with >=2 rules for which pigeon produced a parser")
	c.Assume("map iteration orders are sampled by repetition, not enumerated")
	rng := rand.New(rand.NewSource(c.Seed*733 + 19))
	hook, err := c.W.Hooked()
	if err != nil {
		c.Broken(err.Error())
		return
	}
	type job struct {
		name  string
		text  []byte
		flags []string
		rules int
	}
	var jobs []job
	// checked-in grammars
	arts, _ := MakefileArtifacts(batch.Repo)
	seenSrc := map[string]bool{}
	for _, a := range arts {
		data, err := os.ReadFile(filepath.Join(batch.Repo, a.Src))
		if err != nil {
			continue
		}
		jobs = append(jobs, job{a.Src, data, a.Flags, 9})
		if !seenSrc[a.Src] && len(jobs)%3 == 0 || c.Tier == "thorough" && !seenSrc[a.Src] {
			jobs = append(jobs, job{a.Src, data, []string{"-support-left-recursion", "-optimize-grammar"}, 9})
		}
		seenSrc[a.Src] = true
	}
	if c.Quick() && len(jobs) > 30 {
		rng.Shuffle(len(jobs), func(i, j int) { jobs[i], jobs[j] = jobs[j], jobs[i] })
		jobs = jobs[:30]
	}
	flagSets := [][]string{{"-support-left-recursion"}, {"-support-left-recursion", "-optimize-grammar"}, {"-optimize-grammar"}, {},
		{"-support-left-recursion", "-optimize-parser", "-optimize-basic-latin"}, {"-optimize-grammar", "-optimize-parser", "-nolint"}}
	nadd := 0
	add := func(name string, g *gast.Grammar, nf int) {
		g.Finalize()
		nadd++
		// every other grammar is spelled with all rules on one line (positions tie on the line number)
		text := []byte(gast.Print(g, gast.PrintOpts{Pkg: "p", Plain: true, OneLine: nadd%2 == 0}))
		for i := 0; i < nf; i++ {
			fs := flagSets[(i+nadd)%len(flagSets)]
			if name == "opt" {
				fs = [][]string{{"-optimize-grammar"}, {"-support-left-recursion", "-optimize-grammar"}, {"-optimize-grammar", "-optimize-parser", "-nolint"}}[(i+nadd)%3]
			}
			jobs = append(jobs, job{name + ": " + gast.Short(g), text, fs, len(g.Rules)})
		}
		if (name == "lr" || name == "stratum") && len(g.Rules) >= 3 && nadd%2 == 1 {
			// every rule is an entrypoint (so are all members of every cycle): whatever the generator
			// derives from the entrypoint list, the output is a function of text and flags
			var names []string
			for _, ru := range g.Rules[1:] {
				names = append(names, ru.Name)
			}
			jobs = append(jobs, job{name + "+entrypoints: " + gast.Short(g), text, []string{"-support-left-recursion", "-alternate-entrypoints", strings.Join(names, ",")}, len(g.Rules)})
		}
	}
	jobs = append(jobs, job{"raw: blocks using packages the initializer does not import", []byte("{\npackage p\n}\n\nS <- a:W b:N !. { return strings.ToUpper(a.(string)) + strconv.Itoa(b.(int)), nil }\nW <- [a-z]+ { return string(c.text), nil }\nN <- [0-9]+ { return len(c.text), nil }\n"), nil, 3},
		job{"raw: blocks using packages the initializer does not import", []byte("{\npackage p\n}\n\nS <- a:W b:N !. { return strings.ToUpper(a.(string)) + strconv.Itoa(b.(int)), nil }\nW <- [a-z]+ { return string(c.text), nil }\nN <- [0-9]+ { return len(c.text), nil }\n"), []string{"-optimize-parser"}, 3})
	for _, g := range c19Strata() {
		add("stratum", g, 6) // once multi-line ...
		add("stratum", g, 6) // ... and once with all rules on one line, under every flag set
	}
	for i := 0; i < c.N(2, 8); i++ {
		g := genDenseLR(rng)
		text := []byte(gast.Print(g, gast.PrintOpts{Pkg: "p", Plain: true}))
		jobs = append(jobs, job{"dense-lr: " + fmt.Sprint(len(g.Rules)) + " rules", text, []string{"-support-left-recursion"}, len(g.Rules)},
			job{"dense-lr: " + fmt.Sprint(len(g.Rules)) + " rules", text, []string{"-support-left-recursion", "-optimize-parser"}, len(g.Rules)})
	}
	ng := c.N(50, 600)
	op := optProfile()
	for i := 0; i < ng; i++ {
		switch i % 5 {
		case 0, 1:
			add("refgraph", genRefGraph(rng, false), c.N(2, 6))
		case 2:
			add("lr", genLR(rng, i%10 == 2), c.N(2, 6))
		default:
			add("opt", gast.Generate(rng, op), c.N(2, 6))
		}
	}
	digest := func(r batch.GenResult) string {
		h := sha256.New()
		fmt.Fprintf(h, "exit=%d\n", r.Exit)
		h.Write(r.Stdout)
		return fmt.Sprintf("%x", h.Sum(nil))[:16]
	}
	parallel(len(jobs), 12, func(i int) {
		j := jobs[i]
		counts := map[string]int{}
		var first batch.GenResult
		for k := 0; k < R; k++ {
			res := c.W.RunPigeon(c.W.Pigeon, j.text, 60*time.Second, nil, j.flags...)
			if k == 0 {
				first = res
			}
			if res.Killed {
				c.Inconclusive("pigeon_timeout")
				return
			}
			counts[digest(res)]++
		}
		if first.Exit == 0 && !hasFlag(j.flags, "-o") && !hasFlag(j.flags, "-x") {
			// the same command writing to -o FILE, where FILE holds what an earlier, larger generation left
			// there: the file is a function of text and flags, not of what the path held before
			// (the destination directory holds another file of the same package that declares identifiers
			// named like standard packages: what stands next to FILE does not matter either)
			od := filepath.Join(c.W.Dir, fmt.Sprintf("c19o%d", i))
			os.MkdirAll(od, 0o755)
			defer os.RemoveAll(od)
			os.WriteFile(filepath.Join(od, "sibling.go"), []byte("package p\n\ntype fakePkg struct{}\n\nfunc (fakePkg) ToUpper(s string) string { return s }\nfunc (fakePkg) Itoa(int) string { return \"\" }\n\nvar strings, strconv, log, sort = fakePkg{}, fakePkg{}, fakePkg{}, fakePkg{}\n"), 0o644)
			of := filepath.Join(od, "parser.go")
			os.WriteFile(of, append(append([]byte{}, first.Stdout...), []byte(strings.Repeat("// left over from an earlier, larger generation\nvar _ = 0\n", 300))...), 0o644)
			ro := c.W.RunPigeon(c.W.Pigeon, j.text, 60*time.Second, nil, append(append([]string{}, j.flags...), "-o", of)...)
			got, _ := os.ReadFile(of)
			os.Remove(of)
			c.CovAdd("runs_with_o_flag_over_an_older_file", 1)
			if ro.Exit == 0 && !bytes.Equal(got, first.Stdout) {
				c.Report(&Violation{Class: "C19/output-depends-on-old-file", Summary: fmt.Sprintf("pigeon %v -o FILE over an older, longer FILE leaves %d bytes where the same command writes %d bytes to stdout: the generated file depends on what the path held before; grammar %s", j.flags, len(got), len(first.Stdout), trunc(j.name)),
					Grammar: string(j.text), Flags: j.flags})
			}
		}
		c.Eval(R)
		if first.Exit == 0 && j.rules >= 2 {
			c.Distinct(j.name + strings.Join(j.flags, " "))
		}
		c.CovSet("exit_status", fmt.Sprint(first.Exit))
		c.CovSet("flag_sets", strings.Join(j.flags, " ")+"|")
		if len(counts) > 1 {
			var ds []string
			for d, n := range counts {
				ds = append(ds, fmt.Sprintf("%s x%d", d, n))
			}
			sort.Strings(ds)
			c.Report(&Violation{Class: "C19/runs-differ", Summary: fmt.Sprintf("%d runs of pigeon %v on the same grammar produced %d different outputs (%s); grammar %s", R, j.flags, len(counts), strings.Join(ds, ", "), trunc(j.name)),
				Grammar: string(j.text), Flags: j.flags, Extra: map[string]any{"digests": counts}})
			return
		}
		if first.Exit != 0 {
			return
		}
		// inside one process
		var fl []string
		entry := ""
		skip := false
		for x := 0; x < len(j.flags); x++ {
			f := j.flags[x]
			switch f {
			case "-alternate-entrypoints":
				x++
				entry = j.flags[x]
			case "-cache", "-debug", "-no-recover", "-x", "-o", "-receiver-name":
				skip = true
			default:
				fl = append(fl, strings.TrimPrefix(f, "-"))
			}
		}
		if skip {
			return
		}
		res := c.W.RunPigeon(hook, j.text, 120*time.Second, []string{"PIGEON_VERIF_MODE=multibuild", fmt.Sprintf("PIGEON_VERIF_K=%d", K),
			"PIGEON_VERIF_FLAGS=" + strings.Join(fl, ","), "PIGEON_VERIF_ENTRYPOINTS=" + entry})
		c.Eval(K)
		lines := strings.Fields(string(res.Stdout))
		if res.Exit != 0 || len(lines) != K {
			c.Report(&Violation{Class: "C19/inprocess-fails", Summary: fmt.Sprintf("building %d times inside one process fails (exit %d: %s) although a single run succeeds; flags %v grammar %s", K, res.Exit, firstLine(string(res.Stdout)+res.Stderr), j.flags, trunc(j.name)),
				Grammar: string(j.text), Flags: j.flags})
			return
		}
		set := map[string]bool{}
		for _, l := range lines {
			set[l] = true
		}
		want := fmt.Sprintf("%x", sha256.Sum256(first.Stdout))
		if len(set) > 1 {
			c.Report(&Violation{Class: "C19/inprocess-differ", Summary: fmt.Sprintf("%d builds inside one process produced %d different outputs; flags %v grammar %s", K, len(set), j.flags, trunc(j.name)), Grammar: string(j.text), Flags: j.flags})
		} else if !set[want] {
			c.Report(&Violation{Class: "C19/inprocess-vs-run", Summary: fmt.Sprintf("the output built inside the hook process differs from the output of a normal run; flags %v grammar %s", j.flags, trunc(j.name)), Grammar: string(j.text), Flags: j.flags})
		}
	})
	// different grammars built one after the other inside one process: what was built first must
	// not influence what is built next (caches keyed by less than what the output depends on)
	seqTexts := map[string]string{
		"plain":  "{\npackage p\n}\nS <- A B* !.\nA <- [a-c]+ { return nil, nil }\nB <- \",\" A\n",
		"state":  "{\npackage p\n}\nS <- #{ c.state[\"n\"] = 0; return nil } A* !.\nA <- [a-c] #{ return nil } / \"(\" S \")\"\n",
		"lr":     "{\npackage p\n}\nS <- E !.\nE <- E \"+\" T / T\nT <- T \"*\" [0-9]+ / [0-9]+\n",
		"uclass": "{\npackage p\n}\nS <- [\\p{Lu}\\p{Greek}]+ [^\\p{Nd}] / [a-z]i\n",
		"recover": "{\npackage p\n}\nS <- Num (\",\" Num)* !.\nNum <- n:[0-9]+ //{errNum} FixNum\nFixNum <- Skip { return nil, nil }\nSkip <- [a-z]+ / \"(\" FixNum \")\"\n",
	}
	type seq struct {
		flags []string
		names []string
	}
	seqs := []seq{
		{[]string{"-optimize-parser"}, []string{"plain", "state", "uclass", "plain"}},
		{[]string{"-optimize-parser"}, []string{"state", "plain"}},
		{[]string{"-support-left-recursion"}, []string{"plain", "lr", "state", "plain"}},
		{[]string{"-support-left-recursion"}, []string{"lr", "plain"}},
		{[]string{"-support-left-recursion", "-optimize-parser"}, []string{"state", "lr", "plain", "uclass"}},
		{[]string{"-optimize-grammar", "-optimize-basic-latin"}, []string{"uclass", "plain", "state"}},
		{nil, []string{"plain", "state", "uclass"}},
		{nil, []string{"recover", "plain", "recover"}},
		{[]string{"-support-left-recursion"}, []string{"recover", "lr", "plain", "recover"}},
		{[]string{"-support-left-recursion"}, []string{"lr", "recover", "lr"}},
	}
	for _, sq := range seqs {
		var texts [][]byte
		var want []string
		ok := true
		for _, n := range sq.names {
			t := []byte(seqTexts[n])
			one := c.W.RunPigeon(c.W.Pigeon, t, 60*time.Second, nil, sq.flags...)
			if one.Exit != 0 {
				c.Broken(fmt.Sprintf("sequence text %s is rejected with flags %v: %s", n, sq.flags, firstLine(one.Stderr)))
				ok = false
				break
			}
			texts = append(texts, t)
			want = append(want, fmt.Sprintf("%x", sha256.Sum256(one.Stdout)))
		}
		if !ok {
			continue
		}
		var fl []string
		for _, f := range sq.flags {
			fl = append(fl, strings.TrimPrefix(f, "-"))
		}
		res := c.W.RunPigeon(hook, bytes.Join(texts, []byte("\n%%NEXT%%\n")), 120*time.Second, []string{"PIGEON_VERIF_MODE=multibuild", "PIGEON_VERIF_K=2", "PIGEON_VERIF_FLAGS=" + strings.Join(fl, ",")})
		lines := strings.Fields(string(res.Stdout))
		c.Eval(len(lines))
		c.CovAdd("builds_in_mixed_sequences", len(lines))
		if res.Exit != 0 || len(lines) != 2*len(texts) {
			c.Report(&Violation{Class: "C19/sequence-fails", Summary: fmt.Sprintf("building the grammars %v one after the other inside one process fails (exit %d: %s) although each builds alone; flags %v", sq.names, res.Exit, firstLine(string(res.Stdout)+res.Stderr), sq.flags), Flags: sq.flags})
			continue
		}
		for i, l := range lines {
			if l != want[i%len(want)] {
				c.Report(&Violation{Class: "C19/sequence-differs", Summary: fmt.Sprintf("grammar %q built as number %d of the sequence %v inside one process differs from the same grammar built alone; flags %v", sq.names[i%len(want)], i+1, sq.names, sq.flags),
					Grammar: seqTexts[sq.names[i%len(want)]], Flags: sq.flags})
				break
			}
		}
	}
	c.Cov("grammar_flag_pairs", len(jobs))
	c.Cov("runs_per_pair", R)
	c.Cov("inprocess_builds_per_pair", K)
	if len(jobs) > 0 {
		c.Sample(map[string]any{"grammar": jobs[len(jobs)-1].name, "flags": jobs[len(jobs)-1].flags})
	}
}

func c19Strata() []*gast.Grammar {
	mk := func(rules ...*gast.Rule) *gast.Grammar { return &gast.Grammar{Rules: rules} }
	r := func(n string, e *gast.Expr) *gast.Rule { return &gast.Rule{Name: n, Expr: e} }
	lab := func(n, lit string) *gast.Expr { return gast.Lab(n, gast.L(lit)) }
	// a large grammar (more than 256 rules): chains of rule references three links deep, every link a
	// choice of one-character literals, classes and the next link (what the optimizer merges step by step)
	var bigRules []*gast.Rule
	var tops []*gast.Expr
	for i := 0; i < 90; i++ {
		a, b, cc := fmt.Sprintf("La%d", i), fmt.Sprintf("Lb%d", i), fmt.Sprintf("Lc%d", i)
		tops = append(tops, gast.Ref(a))
		bigRules = append(bigRules, r(a, gast.C(gast.L(string(rune('a'+i%20))), gast.Ref(b))), r(b, gast.C(gast.Cl(gast.Chars(string(rune('b'+i%20))+"_")), gast.Ref(cc), gast.L("-"))),
			r(cc, gast.C(gast.L(string(rune('c'+i%20))), gast.L("d"), gast.Cl(gast.Chars("xy")))))
	}
	big := mk(append([]*gast.Rule{r("S", gast.Star(gast.C(tops...)))}, bigRules...)...)
	return []*gast.Grammar{
		big,
		// a label bound twice in one scope next to other labels: written like that, and produced by
		// -optimize-grammar when it inlines an unlabelled leaf rule whose sequence binds a label the host
		// binds too (the emitted code need not compile - known finding F07 - but it is the same every time)
		mk(r("A", gast.A(gast.S(lab("v", "x"), lab("v", "y"), lab("u", "z"), lab("w", "q"), lab("t", "r")), 1, mon.Spec{})), r("B", gast.S(gast.AndC(2, mon.Spec{}), gast.Ref("A")))),
		mk(r("A", gast.A(gast.S(lab("v", "x"), gast.Ref("B"), lab("w", "q"), gast.Ref("C")), 1, mon.Spec{})), r("B", gast.S(lab("v", "y"), lab("u", "z"))), r("C", gast.A(gast.S(lab("w", "k"), lab("t", "l"), lab("s", "m")), 2, mon.Spec{}))),
		// overlapping classes and literals side by side: merged and de-duplicated by the optimizer
		mk(r("S", gast.Plus(gast.C(gast.Cl(gast.Chars("abcde")), gast.Cl(gast.Chars("cdefg")), gast.L("_"), gast.L("a"),
			gast.Cl(&gast.ClassSpec{UClasses: []string{"L", "Nd"}}), gast.Cl(&gast.ClassSpec{UClasses: []string{"Nd", "Mn", "Pc", "L"}}))))),
		// several separate groups of mutually left-recursive rules (each needs a leader of its own),
		// plus a dead rule that uses several otherwise unused rules
		mk(r("S", gast.S(gast.Ref("Expr"), gast.L(";"), gast.Ref("Path"), gast.L(";"), gast.Ref("Qual"))),
			r("Expr", gast.C(gast.S(gast.Ref("Term"), gast.L("+")), gast.L("n"))), r("Term", gast.C(gast.S(gast.Ref("Expr"), gast.L("*")), gast.L("m"))),
			r("Path", gast.C(gast.S(gast.Ref("Step"), gast.L("/")), gast.L("p"))), r("Step", gast.C(gast.S(gast.Ref("Path"), gast.L(".")), gast.L("s"))),
			r("Qual", gast.C(gast.S(gast.Ref("Name"), gast.L(":")), gast.L("q"))), r("Name", gast.C(gast.S(gast.Ref("Ident"), gast.L("'")), gast.L("i"))), r("Ident", gast.C(gast.S(gast.Ref("Qual"), gast.L("!")), gast.L("j"))),
			r("Dead", gast.S(gast.Ref("LegacyHead"), gast.Ref("LegacyBody"), gast.Ref("LegacyTail"))), r("LegacyHead", gast.L("h")), r("LegacyBody", gast.S(gast.L("b"), gast.Ref("LegacyTail"))), r("LegacyTail", gast.L("t"))),
		// a choice whose earlier alternative is nullable only through a rule reference, followed by an
		// alternative "NullableRule X ..." where X leads back to the enclosing rule
		mk(r("Start", gast.S(gast.Ref("Item"), gast.NotE(gast.Dot()))), r("Prefix", gast.Opt(gast.L("+"))), r("Item", gast.C(gast.Ref("Blank"), gast.S(gast.Ref("Prefix"), gast.Ref("Chain"), gast.L(";")))),
			r("Blank", gast.Star(gast.L(" "))), r("Chain", gast.C(gast.S(gast.Ref("Item"), gast.L(".")), gast.Plus(gast.Cl(gast.Chars("ab")))))),
		// one mutually left-recursive group with two directly left-recursive rules (no rule lies on all cycles)
		mk(r("Start", gast.S(gast.Ref("Expr"), gast.NotE(gast.Dot()))), r("Expr", gast.C(gast.S(gast.Ref("Expr"), gast.L("+"), gast.Ref("Term")), gast.Ref("Term"))),
			r("Term", gast.C(gast.S(gast.Ref("Term"), gast.L("*"), gast.Ref("Call")), gast.Ref("Call"))), r("Call", gast.C(gast.S(gast.Ref("Expr"), gast.L("("), gast.L(")")), gast.Plus(gast.Cl(gast.Chars("01")))))),
		// a left-recursive rule on two cycles whose rule names concatenate to the same string
		// ({x, ab, c} and {x, a, bc}); x is the only possible leader
		mk(r("start", gast.S(gast.Lab("v", gast.Ref("x")), gast.NotE(gast.Dot()))), r("x", gast.C(gast.S(gast.Ref("ab"), gast.L("p")), gast.S(gast.Ref("a"), gast.L("q")), gast.L("x"))),
			r("ab", gast.S(gast.Ref("c"), gast.L("r"))), r("c", gast.S(gast.Ref("x"), gast.L("s"))), r("a", gast.S(gast.Ref("bc"), gast.L("t"))), r("bc", gast.S(gast.Ref("x"), gast.L("u")))),
		// a recovery operator over a bare terminal whose recovery rule starts, through rules, with a
		// terminal; genuine left recursion elsewhere
		mk(r("S", gast.S(gast.Ref("Expr"), gast.L(";"), gast.Ref("Num"))), r("Expr", gast.C(gast.S(gast.Ref("Expr"), gast.L("+"), gast.Ref("Num")), gast.Ref("Num"))),
			r("Num", gast.Rec(gast.Lab("n", gast.Plus(gast.Cl(gast.Chars("01")))), gast.Ref("FixNum"), "L1")), r("FixNum", gast.A(gast.Ref("Skip"), 1, mon.Spec{})),
			r("Skip", gast.C(gast.Plus(gast.Cl(gast.Chars("ab"))), gast.S(gast.L("("), gast.Ref("FixNum"), gast.L(")"))))),
		mk(r("S", gast.S(gast.Ref("Num"), gast.Star(gast.S(gast.L(","), gast.Ref("Num"))))),
			r("Num", gast.Rec(gast.Lab("n", gast.Plus(gast.Cl(gast.Chars("01")))), gast.Ref("FixNum"), "L1")), r("FixNum", gast.A(gast.Ref("Skip"), 1, mon.Spec{})),
			r("Skip", gast.C(gast.Plus(gast.Cl(gast.Chars("ab"))), gast.S(gast.L("("), gast.Ref("FixNum"), gast.L(")"))))),
		// nullable computation depends on the visit order of mutually recursive rules
		mk(r("Q", gast.C(gast.S(gast.Ref("R"), gast.L("q")), gast.L(""))), r("R", gast.S(gast.Ref("Q"), gast.Ref("T"), gast.L("r"))), r("T", gast.C(gast.S(gast.Ref("R"), gast.L("y")), gast.L("t")))),
		mk(r("A", gast.C(gast.S(gast.Ref("B"), gast.L("a")), gast.L(""))), r("B", gast.C(gast.S(gast.Ref("C"), gast.Opt(gast.L("b"))), gast.Ref("A"))), r("C", gast.C(gast.S(gast.Ref("A"), gast.Ref("B"), gast.L("c")), gast.L("x"))), r("D", gast.S(gast.Ref("A"), gast.Ref("C")))),
	}
}

package checks

import (
	"fmt"
	"math/rand"
	"os"
	"sort"
	"strconv"
	"strings"

	"verif/engine/batch"
	"verif/engine/gast"
	"verif/engine/mon"
	"verif/engine/ref"
)

// Compare mask.
const (
	CmpVal = 1 << iota
	CmpEnd
	CmpTrace
	CmpErrs     // full error list (messages, order)
	CmpErrTypes // errList / *parserError / Inner identity
	CmpPanic    // escaping panic
	CmpState    // final state store
	CmpGLog     // globalStore log
	CmpInput    // input buffer unchanged
	CmpExprCnt  // expression count equals the model's
	CmpNoMatch  // the synthesized farthest-failure error (position + expected list)
	CmpInvalid  // invalid-encoding errors: set of positions
	CmpOK       // success/failure only (error-nil vs model)
	CmpMemoOnce // under Memoize: no (block id, offset) twice; evaluations <= #exprs x (len+1)
)

// OptSet is one runtime option variation.
type OptSet struct {
	Name         string
	AllowInvalid bool
	NoRecover    bool
	File         string
	MaxExpr      uint64
	Memo         bool
	Debug        bool
	Stats        bool
	StatsReused  bool // Statistics with a Stats value shared by all such calls of the process
	Init         int  // InitState values (grammars with a state store only)
	Reader       bool // through ParseReader; the result must also survive a later ParseReader call
}

// MCConfig configures the generic model check.
type MCConfig struct {
	Profile       *gast.Profile
	Grammars      []*gast.Grammar // fixed grammars run before the generated ones (strata, witnesses)
	NGrammars     int
	FlagSets      [][]string
	InputsPer     int
	ExhaustLimit  int
	ExhaustLen    int
	Invalid       bool // inputs contain invalid UTF-8
	OptSets       []OptSet
	Entrypoints   bool // every rule also as Entrypoint (first flag set only)
	Compare       int
	DebugOptEvery int // option sets that include Debug use every n-th input only (0/1 = all)
	DebugEvery    int // every n-th input additionally under Debug(true) for the position-purity monitor (0 = never)
	NonTrivial    func(m *ref.Result) bool
	Sig           func(g *gast.Grammar, in []byte, m *ref.Result, field string) []string
	Chunk         int
	ReverseRules  bool // every second generated grammar has its rules after the first in reverse order
	ExtraInputs   func(g *gast.Grammar, r *rand.Rand) [][]byte
	KeepGrammar   func(g *gast.Grammar) bool
	// StalePS: pigeon leaves c.pos / c.text stale in predicate and state blocks (known finding
	// F02). When set, the offset / position / text fields of P and S events are masked on both
	// sides before traces are compared, and every event where they differ is counted under F02.
	StalePS string
	LR      bool // the grammars are left-recursive: generate with the LR runtime, model with LR semantics
}

type mcCase struct {
	u     *Unit
	c     *mon.Case
	in    []byte
	os    OptSet
	entry string
	mkey  string
}

// ModelCheck is the shared driver of the model-based properties.
func (c *Ctx) ModelCheck(cfg *MCConfig) {
	rng := rand.New(rand.NewSource(c.Seed*7919 + int64(len(c.Prop))*104729 + int64(c.Prop[1]-'0')*31 + int64(c.Prop[2]-'0')))
	if len(cfg.OptSets) == 0 {
		cfg.OptSets = []OptSet{{Name: "default"}}
	}
	if len(cfg.FlagSets) == 0 {
		cfg.FlagSets = [][]string{{}}
	}
	chunk := cfg.Chunk
	if chunk == 0 {
		chunk = 60
	}
	var all []*gast.Grammar
	all = append(all, cfg.Grammars...)
	for i := 0; i < cfg.NGrammars; i++ {
		g := gast.Generate(rng, cfg.Profile)
		if cfg.KeepGrammar != nil && !cfg.KeepGrammar(g) {
			i--
			continue
		}
		if cfg.ReverseRules && i%2 == 1 && len(g.Rules) > 2 {
			// the same grammar with the rules after the first written in the opposite order (rules that
			// are referenced now stand before the rules that reference them)
			for a, b := 1, len(g.Rules)-1; a < b; a, b = a+1, b-1 {
				g.Rules[a], g.Rules[b] = g.Rules[b], g.Rules[a]
			}
		}
		all = append(all, g)
	}
	for _, g := range all {
		g.Finalize()
	}
	for lo := 0; lo < len(all); lo += chunk {
		hi := lo + chunk
		if hi > len(all) {
			hi = len(all)
		}
		c.mcChunk(cfg, all[lo:hi], lo, rng)
		if c.NViol() > 25 || c.enoughAlready() {
			break
		}
	}
}

func (c *Ctx) mcChunk(cfg *MCConfig, gs []*gast.Grammar, base int, rng *rand.Rand) {
	var isLR func(int) bool
	if cfg.LR {
		isLR = func(int) bool { return true }
	}
	bt := c.BuildUnits(gs, cfg.FlagSets, false, isLR)
	defer bt.Close()
	// inputs per grammar
	inputs := make([][][]byte, len(gs))
	for gi, g := range gs {
		inputs[gi] = c.mcInputs(cfg, g, rng)
	}
	var cases []*mcCase
	rejected := 0
	for _, u := range bt.Units {
		if !u.OK {
			rejected++
			c.CovSet("units_not_built", shortFail(u.Fail))
			continue
		}
		first := u.FlagID == strings.Join(cfg.FlagSets[0], " ")
		entries := []string{""}
		if cfg.Entrypoints && first {
			for _, r := range u.G.Rules[1:] {
				entries = append(entries, r.Name)
			}
		}
		for ii, in := range inputs[u.GIdx] {
			for oi, os := range cfg.OptSets {
				for ei, en := range entries {
					if ei > 0 && (oi > 0 || ii%4 != 0) {
						continue
					}
					id := fmt.Sprintf("%s/%d/%d/%d", u.Pkg, ii, oi, ei)
					mc := &mon.Case{ID: id, Pkg: u.Pkg, Input: in, File: os.File, Entry: en, AllowInvalid: os.AllowInvalid,
						NoRecover: os.NoRecover, MaxExpr: os.MaxExpr, MaxEvents: 4000, Memo: os.Memo, Debug: os.Debug, Stats: os.Stats, StatsReused: os.StatsReused, Init: os.Init, Reader: os.Reader}
					if os.Debug && cfg.DebugOptEvery > 1 && ii%cfg.DebugOptEvery != 0 {
						continue // Debug(true) runs are I/O heavy: option sets with Debug take every n-th input
					}
					if (os.Memo || os.Debug || os.Stats || os.StatsReused) && u.HasFlag("-optimize-parser") {
						continue // these options do not exist in optimized parsers
					}
					if cfg.DebugEvery > 0 && ii%cfg.DebugEvery == 0 && !u.HasFlag("-optimize-parser") && oi == 0 {
						mc.Debug = true
					}
					cases = append(cases, &mcCase{u: u, c: mc, in: in, os: os, entry: en,
						mkey: fmt.Sprintf("%d/%d/%d/%d", u.GIdx, ii, oi, ei)})
				}
			}
		}
	}
	c.CovAdd("units_built", len(bt.Units)-rejected)
	c.CovAdd("units_rejected_or_uncompilable", rejected)
	// model first, once per (grammar, input, optset, entry); cases the model cannot evaluate
	// within its step cap are not sent to the real parser (they are counted as inconclusive)
	models := map[string]*ref.Result{}
	var keys []string
	keyCase := map[string]*mcCase{}
	for _, cs := range cases {
		if _, ok := keyCase[cs.mkey]; !ok {
			keyCase[cs.mkey] = cs
			keys = append(keys, cs.mkey)
		}
	}
	stepCap := uint64(c.N(150000, 400000))
	mres := make([]*ref.Result, len(keys))
	parallel(len(keys), 16, func(i int) {
		cs := keyCase[keys[i]]
		mres[i] = ref.Run(cs.u.G, cs.in, ref.Opts{Entry: cs.entry, File: cs.os.File, AllowInvalid: cs.os.AllowInvalid,
			NoRecover: cs.os.NoRecover, MaxExpr: cs.os.MaxExpr, MaxEvents: 4000, StepCap: stepCap, LR: cfg.LR, Init: cs.os.Init})
	})
	for i, k := range keys {
		models[k] = mres[i]
	}
	var mcs []*mon.Case
	for _, cs := range cases {
		if models[cs.mkey].Capped {
			continue
		}
		if cs.c.MaxExpr == 0 {
			// safety net only: the model says the parse needs at most stepCap evaluations
			cs.c.MaxExpr = 4*stepCap + 1000
		}
		mcs = append(mcs, cs.c)
	}
	res := bt.Run(mcs, batch.RunOpts{})
	// option independence of what the canonical value ignores: the nil-vs-empty structure of the
	// returned value under Memoize / Debug / Statistics / ParseReader equals that of the run of the
	// same grammar, flags, input and entrypoint without them (the model is not involved)
	if cfg.Compare&CmpVal != 0 {
		plainKey := func(cs *mcCase) string {
			return fmt.Sprintf("%s|%s|%x|%d|%t|%t|%s|%d", cs.u.Pkg, cs.entry, cs.in, cs.os.Init, cs.os.AllowInvalid, cs.os.NoRecover, cs.os.File, cs.os.MaxExpr)
		}
		base := map[string]*mon.Result{}
		for _, cs := range cases {
			if !cs.os.Memo && !cs.os.Debug && !cs.os.Stats && !cs.os.Reader {
				if r := res[cs.c.ID]; r != nil && r.Died == "" && !r.Timeout && r.Panic == "" {
					base[plainKey(cs)] = r
				}
			}
		}
		for _, cs := range cases {
			if !(cs.os.Memo || cs.os.Debug || cs.os.Stats || cs.os.Reader) {
				continue
			}
			r, b := res[cs.c.ID], base[plainKey(cs)]
			if r == nil || b == nil || r.Died != "" || r.Timeout || r.Panic != "" {
				continue
			}
			c.CovAdd("value_shapes_compared_across_options", 1)
			if r.Val == b.Val && r.Shape != b.Shape {
				c.Report(&Violation{Class: c.Prop + "/value-shape", Summary: fmt.Sprintf("with options %s the returned value %s has another nil/empty structure (%s) than with default options (%s) on grammar %q flags [%s] input %q",
					cs.os.Name, trunc(r.Val), r.Shape, b.Shape, gast.Short(cs.u.G), cs.u.FlagID, cs.in), Grammar: cs.u.Text, Flags: cs.u.Flags, Input: cs.in, Case: cs.c, Want: b.Shape, Got: r.Shape})
			}
		}
	}
	for _, cs := range cases {
		m := models[cs.mkey]
		r := res[cs.c.ID]
		c.Eval(1)
		if m.Capped {
			c.Inconclusive("model_step_cap")
			continue
		}
		if r == nil {
			c.Inconclusive("no_result")
			continue
		}
		for k, n := range m.KindsEval {
			if n > 0 {
				c.CovSet("kinds_evaluated", gast.Kind(k).String())
			}
		}
		if cfg.NonTrivial == nil || cfg.NonTrivial(m) {
			c.Distinct(fmt.Sprintf("%d:%s", base, cs.mkey))
		}
		if m.OK {
			c.CovAdd("model_accepts", 1)
		} else {
			c.CovAdd("model_rejects", 1)
		}
		c.CovAdd("events_compared", len(m.Trace))
		if c.Prop == "C14" {
			c.CovAdd("handler_runs", m.HandlerRuns)
			c.CovAdd("handler_fallthroughs", m.HandlerFall)
			c.CovAdd("throws_inside_recovery_expr", m.ThrowInHandler)
			c.CovAdd("recovery_ops_inside_recovery_expr", m.RecInHandler)
			c.CovAdd("throws_without_handler", m.ThrowUnhandled)
			c.CovAdd("sibling_recovery_ops", m.SiblingRec)
		}
		c.CovSet("flag_sets", cs.u.FlagID+"|")
		c.CovSet("option_sets", cs.os.Name)
		if cfg.StalePS != "" && cfg.Compare&CmpTrace != 0 {
			if n := maskPS(m.Trace, r.Trace); n > 0 && c.Prop == "C02" {
				c.Report(&Violation{Class: c.Prop + "/stale-ps", Sig: []string{cfg.StalePS},
					Summary: fmt.Sprintf("predicate/state block saw a stale position or text on grammar %q input %q", gast.Short(cs.u.G), cs.in),
					Grammar: cs.u.Text, Flags: cs.u.Flags, Input: cs.in, Case: cs.c})
				c.CovAdd("stale_pred_state_events", n)
			}
		}
		diffs := compareModel(cfg.Compare, cs, r, m)
		if cfg.Compare&CmpTrace != 0 && cs.os.Memo && !cfg.LR && !m.Capped && !r.Timeout && r.Died == "" {
			// under Memoize(true) the block trace is decided against the model variant that caches every
			// (expression, offset) result - value, end, bound labels - and replays nothing on a hit:
			// exactly which blocks still run, in which order, seeing what
			mc := ref.Run(cs.u.G, cs.in, ref.Opts{Entry: cs.entry, File: cs.os.File, AllowInvalid: cs.os.AllowInvalid, NoRecover: cs.os.NoRecover,
				MaxExpr: cs.os.MaxExpr, MaxEvents: 4000, StepCap: 400000, MemoAll: true, Init: cs.os.Init})
			if !mc.Capped {
				if cfg.StalePS != "" {
					maskPS(mc.Trace, r.Trace)
				}
				if d := traceDiff(mc.Trace, r.Trace); d != nil {
					d.field = "memo-trace"
					diffs = append(diffs, *d)
				}
				c.CovAdd("memoize_traces_decided_by_the_memo_model", 1)
			}
		}
		if r.Dbg != nil {
			c.CovAdd("debug_trace_lines_checked", r.Dbg.Lines)
			if r.Dbg.PosBad != "" && cfg.Compare&CmpTrace != 0 {
				diffs = append(diffs, diff{"debugpos", "every (line,col) printed equals posfn(offset)", r.Dbg.PosBad})
			}
		}
		if len(diffs) == 0 {
			if len(m.Trace) > 2 || (m.Backtracks > 2 && len(cs.in) > 1) {
				c.sampleCase(cs, m)
			}
			continue
		}
		d := diffs[0]
		v := &Violation{Class: c.Prop + "/" + d.field, Summary: fmt.Sprintf("%s differs from the model on grammar %q flags [%s] input %q opts %s entry %q: want %v got %v",
			d.field, gast.Short(cs.u.G), cs.u.FlagID, cs.in, cs.os.Name, cs.entry, trunc(d.want), trunc(d.got)),
			Grammar: cs.u.Text, Flags: cs.u.Flags, Input: cs.in, Case: cs.c, Want: d.want, Got: d.got,
			Extra: map[string]any{"all_diffs": diffs, "model_trace": m.Trace, "real_trace": r.Trace, "short": gast.Short(cs.u.G)}}
		if cfg.Sig != nil {
			v.Sig = cfg.Sig(cs.u.G, cs.in, m, d.field)
		}
		if cs.os.Memo && !cfg.LR {
			// known finding F20: Memoize caches a code predicate's verdict per (predicate, offset)
			// although it may depend on label values; the observation equals the model variant that does the same
			mb := ref.Run(cs.u.G, cs.in, ref.Opts{Entry: cs.entry, File: cs.os.File, AllowInvalid: cs.os.AllowInvalid, NoRecover: cs.os.NoRecover,
				MaxExpr: cs.os.MaxExpr, MaxEvents: 4000, StepCap: 400000, MemoPreds: true, Init: cs.os.Init})
			if !mb.Capped && len(compareModel(cfg.Compare, cs, r, mb)) == 0 {
				v.Sig = append(v.Sig, "F20-memo-predicate-labels")
			}
			if outerLabelAction(cs.u.G) {
				// known finding F25: Memoize caches the result of an action expression per (expression, offset)
				// although the action may read labels bound before it in the enclosing sequence, which differ
				// when the action expression is reached at the same offset after a different prefix. The
				// observation (block trace included) equals the model variant that caches every
				// (expression, offset) result, and the grammar has such an action.
				mc := ref.Run(cs.u.G, cs.in, ref.Opts{Entry: cs.entry, File: cs.os.File, AllowInvalid: cs.os.AllowInvalid, NoRecover: cs.os.NoRecover,
					MaxExpr: cs.os.MaxExpr, MaxEvents: 4000, StepCap: 400000, MemoAll: true, Init: cs.os.Init})
				if cfg.StalePS != "" && cfg.Compare&CmpTrace != 0 {
					maskPS(mc.Trace, r.Trace)
				}
				if !mc.Capped && len(compareModel(cfg.Compare, cs, r, mc)) == 0 && (cfg.Compare&CmpTrace == 0 || traceDiff(mc.Trace, r.Trace) == nil) {
					v.Sig = append(v.Sig, "F25-memo-action-outer-labels")
				}
			}
			if cfg.Compare&CmpNoMatch != 0 {
				// known finding F23: a cache hit does not record again what the cached evaluation recorded
				// for the farthest failure; when the first evaluation ran under the other predicate
				// polarity the expected set loses (or keeps) entries. The observation equals the model
				// variant that caches every (expression, offset) result.
				mc := ref.Run(cs.u.G, cs.in, ref.Opts{Entry: cs.entry, File: cs.os.File, AllowInvalid: cs.os.AllowInvalid, NoRecover: cs.os.NoRecover,
					MaxExpr: cs.os.MaxExpr, MaxEvents: 4000, StepCap: 400000, MemoAll: true, Init: cs.os.Init})
				if !mc.Capped && len(compareModel(cfg.Compare, cs, r, mc)) == 0 {
					v.Sig = append(v.Sig, "F23-memo-expected-set")
				}
			}
			if cs.u.G.UsesState {
				// known finding F22: a memoized result is reused without the state changes made while it
				// was computed; the observation (block trace included) equals the model variant that
				// caches every (expression, offset) result the way Memoize(true) does
				mc := ref.Run(cs.u.G, cs.in, ref.Opts{Entry: cs.entry, File: cs.os.File, AllowInvalid: cs.os.AllowInvalid, NoRecover: cs.os.NoRecover,
					MaxExpr: cs.os.MaxExpr, MaxEvents: 4000, StepCap: 400000, MemoAll: true, Init: cs.os.Init})
				if cfg.StalePS != "" && cfg.Compare&CmpTrace != 0 {
					maskPS(mc.Trace, r.Trace) // known finding F02 is masked here as everywhere else
				}
				if !mc.Capped && len(compareModel(cfg.Compare, cs, r, mc)) == 0 && (cfg.Compare&CmpTrace == 0 || traceDiff(mc.Trace, r.Trace) == nil) {
					v.Sig = append(v.Sig, "F22-memo-state-not-replayed")
				} else if os.Getenv("PV_DEBUG_F22") != "" {
					fmt.Fprintf(os.Stderr, "F22-DEBUG capped=%t diffs=%v tracediff=%v\n  grammar %s\n  input %q\n  model trace %q\n  real trace %q\n", mc.Capped, compareModel(cfg.Compare, cs, r, mc), traceDiff(mc.Trace, r.Trace), gast.Short(cs.u.G), cs.in, mc.Trace, r.Trace)
				}
			}
		}
		if cfg.LR && cs.os.Memo {
			// known finding F06 (Memoize variant, see c08Sig): errors recorded in a discarded growth
			// attempt are lost when the memoized result is used again; nothing else differs
			only := true
			for _, x := range diffs {
				if x.field != "ok" && x.field != "errors" {
					only = false
				}
			}
			want := errMsgs(cs.os.File, m)
			i := 0
			for _, e := range r.Errs {
				for i < len(want) && want[i] != e.Msg {
					i++
				}
				if i == len(want) {
					only = false
					break
				}
				i++
			}
			if only && len(r.Errs) < len(want) {
				v.Sig = append(v.Sig, "F06-lr-memo-lost-error")
			}
		}
		if cfg.LR && !cs.os.Memo {
			// known finding F06 (leader-memo variant): the observation equals, field by field, what
			// the model predicts when a finished left-recursive result stays cached for its offset
			mb := ref.Run(cs.u.G, cs.in, ref.Opts{Entry: cs.entry, File: cs.os.File, AllowInvalid: cs.os.AllowInvalid, NoRecover: cs.os.NoRecover,
				MaxExpr: cs.os.MaxExpr, MaxEvents: 4000, StepCap: 400000, LR: true, LRKeepSeeds: true, Init: cs.os.Init})
			if !mb.Capped && len(compareModel(cfg.Compare, cs, r, mb)) == 0 {
				// what the kept result loses: errors (F06) and/or state changes (F22)
				for _, x := range diffs {
					if x.field == "finalstate" {
						v.Sig = append(v.Sig, "F22-memo-state-not-replayed")
					} else {
						v.Sig = append(v.Sig, "F06-lr-memo-lost-error")
					}
				}
			}
		}
		c.Report(v)
	}
}

func shortFail(s string) string {
	s = pkgRe.ReplaceAllString(s, "pN")
	if len(s) > 120 {
		s = s[:120]
	}
	return s
}

func trunc(v any) string {
	s := fmt.Sprint(v)
	if len(s) > 300 {
		s = s[:300] + "..."
	}
	return s
}

func (c *Ctx) sampleCase(cs *mcCase, m *ref.Result) {
	c.mu.Lock()
	n := len(c.samples)
	c.mu.Unlock()
	if n >= 6 {
		return
	}
	tr := m.Trace
	if len(tr) > 6 {
		tr = tr[:6]
	}
	c.Sample(map[string]any{"grammar": gast.Short(cs.u.G), "flags": cs.u.FlagID, "input": fmt.Sprintf("%q", cs.in), "options": cs.os.Name,
		"entry": cs.entry, "model_ok": m.OK, "end": m.End, "value": trunc(m.ValCanon), "events_head": tr, "errors": len(m.Errs), "backtracks": m.Backtracks})
}

func (c *Ctx) mcInputs(cfg *MCConfig, g *gast.Grammar, rng *rand.Rand) [][]byte {
	alpha := g.Alphabet()
	seen := map[string]bool{}
	var out [][]byte
	add := func(b []byte) {
		if len(b) > 300 {
			return
		}
		if !seen[string(b)] {
			seen[string(b)] = true
			out = append(out, b)
		}
	}
	add([]byte{})
	if cfg.ExtraInputs != nil {
		for _, in := range cfg.ExtraInputs(g, rng) {
			add(in)
		}
	}
	if cfg.ExhaustLimit > 0 {
		a := alpha
		if len(a) > 5 {
			a = append([]rune(nil), a[:4]...)
			a = append(a, alpha[len(alpha)-1])
		}
		l := cfg.ExhaustLen
		if l == 0 {
			l = 8
		}
		for _, s := range gast.Exhaustive(a, l, cfg.ExhaustLimit) {
			add(s)
		}
	}
	rules := g.Rules
	for i := 0; len(out) < cfg.InputsPer+cfg.ExhaustLimit && i < cfg.InputsPer*3; i++ {
		ru := rules[0].Name
		if i%5 == 4 {
			ru = rules[rng.Intn(len(rules))].Name
		}
		s := g.Sentence(rng, ru, alpha, 6)
		switch i % 3 {
		case 1:
			s = gast.Mutate(rng, s, alpha, cfg.Invalid)
		case 2:
			s = gast.Mutate(rng, gast.Mutate(rng, s, alpha, cfg.Invalid), alpha, cfg.Invalid)
		}
		if cfg.Invalid && i%3 == 0 && rng.Intn(2) == 0 {
			s = gast.Mutate(rng, s, alpha, true)
		}
		add(s)
	}
	return out
}

type diff struct {
	field string
	want  any
	got   any
}

func compareModel(mask int, cs *mcCase, r *mon.Result, m *ref.Result) []diff {
	var ds []diff
	if r.Died != "" {
		return []diff{{"died", "the parse returns", "child died: " + r.Died}}
	}
	if r.Timeout {
		return []diff{{"timeout", fmt.Sprintf("the parse returns (model: %d evaluations)", m.ExprCnt), fmt.Sprintf("no return after the watchdog; live counter %d then %d", r.Cnt1, r.Cnt2)}}
	}
	if mask&CmpPanic != 0 || true {
		// a panic escaping Parse is only legitimate under Recover(false)
		if r.Panic != m.Panic {
			ds = append(ds, diff{"panic", m.Panic, r.Panic})
		}
	}
	if m.Panic != "" {
		return ds
	}
	if mask&CmpOK != 0 {
		if r.ErrNil != (len(m.Errs) == 0) {
			ds = append(ds, diff{"ok", fmt.Sprintf("error-nil=%t (model ok=%t errs=%d)", len(m.Errs) == 0, m.OK, len(m.Errs)), fmt.Sprintf("error-nil=%t %s", r.ErrNil, r.ErrStr)})
		}
	}
	if mask&CmpVal != 0 && r.Val != m.ValCanon {
		ds = append(ds, diff{"value", m.ValCanon, r.Val})
	}
	if mask&CmpEnd != 0 && !m.Panicked && r.End != m.End {
		ds = append(ds, diff{"end", m.End, r.End})
	}
	if mask&CmpTrace != 0 && cs.os.Memo {
		// under Memoize the trace legitimately has fewer events than the model's; what every action
		// event still must satisfy by itself: pos == posfn(offset) and text == input[offset:offset+len]
		if d := traceSelfConsistent(cs.in, r.Trace); d != nil {
			ds = append(ds, *d)
		}
	}
	if mask&CmpTrace != 0 && !cs.os.Memo {
		if d := traceDiff(m.Trace, r.Trace); d != nil {
			ds = append(ds, *d)
		}
	}
	if mask&CmpErrs != 0 {
		if cs.os.Memo && m.NoMatchErr {
			// the synthesized no-match text is not a code-block error: only its presence is compared
			if len(r.Errs) != 1 || !strings.HasPrefix(r.Errs[0].Inner, "no match found") {
				ds = append(ds, diff{"errors", errMsgs(cs.os.File, m), r.ErrStr})
			}
		} else if d := errsDiff(cs.os.File, m, r); d != nil {
			ds = append(ds, *d)
		}
	}
	if mask&CmpMemoOnce != 0 && cs.os.Memo {
		seen := map[string]bool{}
		for _, ev := range r.Trace {
			f := strings.SplitN(ev, "|", 4)
			if len(f) < 4 {
				continue
			}
			k := f[0] + "|" + f[1] + "|" + f[2]
			if f[0] != "A" {
				continue // predicate/state offsets are stale (F02); actions carry the true match start
			}
			if seen[k] {
				ds = append(ds, diff{"memo-once", "each (block, offset) runs at most once under Memoize", "twice: " + ev})
				break
			}
			seen[k] = true
		}
		// evaluations = expression entries in the parser's own Debug trace (cache hits print nothing;
		// Stats.ExprCnt also counts the hits since they are charged to the budget)
		if r.Dbg != nil {
			evals := 0
			for k, n := range r.Dbg.Kinds {
				if strings.HasPrefix(k, "parse") && k != "parseRule" && (strings.HasSuffix(k, "Expr") || strings.HasSuffix(k, "Matcher")) {
					evals += n
				}
			}
			bound := cs.u.G.NExprs * (len(cs.in) + 1)
			if evals > bound {
				ds = append(ds, diff{"memo-bound", fmt.Sprintf("<= %d evaluations (%d expressions x (%d+1))", bound, cs.u.G.NExprs, len(cs.in)), evals})
			}
			// the same clause per offset: at one offset, expressions of one kind cannot be entered more
			// often than the grammar has expressions of that kind (this sees a repeated evaluation on short
			// inputs already, long before the global product is exceeded)
			used := cs.u.G.KindsUsed()
			if cs.u.G.Raw != "" || cs.u.HasFlag("-optimize-grammar") {
				used = nil // the expression tree of the generated parser is not the one drawn here
			}
			for rt, k := range dbgKindOf {
				if used == nil {
					break
				}
				if n := r.Dbg.PerKindMax[rt]; n > used[k] {
					ds = append(ds, diff{"memo-once-per-offset", fmt.Sprintf("<= %d evaluations of %s at one offset (the grammar has %d such expressions)", used[k], rt, used[k]), fmt.Sprintf("%d at offset %d", n, r.Dbg.PerKindOff[rt])})
					break
				}
			}
		}
	}
	if mask&CmpErrTypes != 0 {
		if d := errTypesDiff(m, r); d != nil {
			ds = append(ds, *d)
		}
	}
	if mask&CmpNoMatch != 0 && m.NoMatchErr {
		if d := noMatchDiff(cs.os.File, m, r); d != nil {
			ds = append(ds, *d)
		}
	}
	if mask&CmpInvalid != 0 {
		if d := invalidDiff(cs.os.AllowInvalid, m, r); d != nil {
			ds = append(ds, *d)
		}
	}
	if mask&CmpState != 0 && !m.Panicked && r.FinalState != "" && m.FinalState != "" && r.FinalState != m.FinalState {
		ds = append(ds, diff{"finalstate", m.FinalState, r.FinalState})
	}
	if mask&CmpGLog != 0 && r.GLog != m.GLog {
		ds = append(ds, diff{"globalstore", m.GLog, r.GLog})
	}
	if r.Unstable != "" {
		ds = append(ds, diff{"result-changed-later", "the returned value stays what it was", r.Unstable})
	}
	if mask&CmpInput != 0 && r.InputChanged {
		ds = append(ds, diff{"input", "input buffer unchanged", "Parse wrote to the caller's buffer: " + r.Touched})
	}
	if mask&CmpExprCnt != 0 && r.ExprCnt != m.ExprCnt {
		ds = append(ds, diff{"exprcnt", m.ExprCnt, r.ExprCnt})
	}
	return ds
}

func traceDiff(want, got []string) *diff {
	n := len(want)
	if len(got) < n {
		n = len(got)
	}
	for i := 0; i < n; i++ {
		if want[i] != got[i] {
			return &diff{"trace", fmt.Sprintf("event %d: %s", i, want[i]), fmt.Sprintf("event %d: %s", i, got[i])}
		}
	}
	if len(want) != len(got) {
		w, g := "<none>", "<none>"
		if len(want) > n {
			w = want[n]
		}
		if len(got) > n {
			g = got[n]
		}
		return &diff{"trace", fmt.Sprintf("%d events; event %d: %s", len(want), n, w), fmt.Sprintf("%d events; event %d: %s", len(got), n, g)}
	}
	return nil
}

func errMsgs(file string, m *ref.Result) []string {
	out := make([]string, len(m.Errs))
	for i, e := range m.Errs {
		out[i] = e.Msg(file)
	}
	return out
}

func errsDiff(file string, m *ref.Result, r *mon.Result) *diff {
	want := errMsgs(file, m)
	got := make([]string, len(r.Errs))
	for i, e := range r.Errs {
		got[i] = e.Msg
	}
	if len(want) != len(got) {
		return &diff{"errors", want, got}
	}
	for i := range want {
		if want[i] == got[i] {
			continue
		}
		e := m.Errs[i]
		// a recovered panic is reported like every other error: prefixed with the position the parser
		// was at when it arose (for an action the end of its match, for a predicate or state block
		// the current position) and the rule on top of the rule stack
		if e.AltLine != 0 {
			alt := e
			alt.Line, alt.Col = e.AltLine, e.AltCol
			if alt.Msg(file) == got[i] {
				continue
			}
		}
		return &diff{"errors", want, got}
	}
	// error string of the list = messages joined by newline
	if len(got) > 0 && r.ErrStr != strings.Join(got, "\n") {
		return &diff{"errors", "Error() == elements joined by newline", r.ErrStr}
	}
	return nil
}

func errTypesDiff(m *ref.Result, r *mon.Result) *diff {
	if r.ErrNil {
		return nil
	}
	if r.ErrType != "errList" {
		return &diff{"errtype", "errList", r.ErrType}
	}
	for i, e := range r.Errs {
		if !e.TypeOK {
			return &diff{"errtype", "*parserError", fmt.Sprintf("element %d: %s", i, e.Msg)}
		}
		if e.Msg != e.Prefix+": "+e.Inner {
			return &diff{"errtype", "message = prefix: inner", e.Msg}
		}
		if i < len(m.Errs) && len(m.Errs) == len(r.Errs) {
			if m.Errs[i].Kind != e.InnerKind {
				return &diff{"errinner", fmt.Sprintf("element %d wraps the original error (%s)", i, m.Errs[i].Kind), e.InnerKind + " " + e.Inner}
			}
		}
	}
	return nil
}

func noMatchDiff(file string, m *ref.Result, r *mon.Result) *diff {
	if len(r.Errs) != 1 {
		return &diff{"nomatch", errMsgs(file, m), fmt.Sprintf("%d errors: %s", len(r.Errs), r.ErrStr)}
	}
	e := m.Errs[0]
	g := r.Errs[0]
	posOK := g.Off == e.Off && (g.Line == e.Line && g.Col == e.Col || e.AltLine != 0 && g.Line == e.AltLine && g.Col == e.AltCol)
	if !posOK {
		return &diff{"nomatchpos", fmt.Sprintf("%d:%d (%d)", e.Line, e.Col, e.Off), fmt.Sprintf("%d:%d (%d)", g.Line, g.Col, g.Off)}
	}
	if g.Inner != e.Inner {
		return &diff{"nomatchexpected", e.Inner, g.Inner}
	}
	if strings.Join(g.Expected, "\x00") != strings.Join(m.Expected, "\x00") {
		return &diff{"nomatchexpected", m.Expected, g.Expected}
	}
	return nil
}

func invalidDiff(allow bool, m *ref.Result, r *mon.Result) *diff {
	got := map[int]bool{}
	for _, e := range r.Errs {
		if e.Inner == "invalid encoding" {
			got[e.Off] = true
			l, c := mon.PosFn(nil, 0)
			_ = l
			_ = c
		}
	}
	want := map[int]bool{}
	if !allow {
		for _, o := range m.InvalidAt {
			want[o] = true
		}
	}
	if len(got) != len(want) {
		return &diff{"invalidenc", keysOf(want), keysOf(got)}
	}
	for k := range want {
		if !got[k] {
			return &diff{"invalidenc", keysOf(want), keysOf(got)}
		}
	}
	if !allow && len(want) > 0 && r.ErrNil {
		return &diff{"invalidenc", "non-nil error", "nil error"}
	}
	return nil
}

func keysOf(m map[int]bool) []int {
	out := make([]int, 0, len(m))
	for k := range m {
		out = append(out, k)
	}
	sort.Ints(out)
	return out
}

// maskPS blanks offset, position and text of P and S events in both traces (in place) and returns
// how many real events had values different from the model's.
func maskPS(want, got []string) int {
	n := 0
	fields := func(ev string) []string { return strings.SplitN(ev, "|", 6) }
	for i := range got {
		if len(got[i]) == 0 || (got[i][0] != 'P' && got[i][0] != 'S') {
			continue
		}
		g := fields(got[i])
		if len(g) < 6 {
			continue
		}
		if i < len(want) {
			w := fields(want[i])
			if len(w) == 6 && w[0] == g[0] && w[1] == g[1] && (w[2] != g[2] || w[3] != g[3] || w[4] != g[4]) {
				n++
			}
		}
		got[i] = g[0] + "|" + g[1] + "|~|~|~|" + g[5]
	}
	for i := range want {
		if len(want[i]) == 0 || (want[i][0] != 'P' && want[i][0] != 'S') {
			continue
		}
		w := fields(want[i])
		if len(w) == 6 {
			want[i] = w[0] + "|" + w[1] + "|~|~|~|" + w[5]
		}
	}
	return n
}

// traceSelfConsistent checks the action events of a trace against the input alone.
func traceSelfConsistent(in []byte, trace []string) *diff {
	var line, col []int
	for i, ev := range trace {
		if !strings.HasPrefix(ev, "A|") {
			continue
		}
		f := strings.SplitN(ev, "|", 6)
		if len(f) < 6 {
			continue
		}
		off, err := strconv.Atoi(f[2])
		if err != nil || off < 0 || off > len(in) {
			return &diff{"trace-pos", "an offset inside the input", fmt.Sprintf("event %d: %s", i, ev)}
		}
		// the quoted text may itself contain '|': unquote the longest quoted prefix of the rest
		rest := strings.SplitN(ev, "|", 5)[4]
		q, err := strconv.QuotedPrefix(rest)
		if err != nil {
			continue
		}
		text, err := strconv.Unquote(q)
		if err != nil {
			continue
		}
		if line == nil {
			line, col = ref.Positions(in)
		}
		want := fmt.Sprintf("%d:%d", line[off], col[off])
		if line[off] == 0 {
			want = "a rune boundary"
		}
		if f[3] != want {
			return &diff{"trace-pos", fmt.Sprintf("event %d at offset %d: pos %s", i, off, want), fmt.Sprintf("event %d: %s", i, ev)}
		}
		if off+len(text) > len(in) || string(in[off:off+len(text)]) != text {
			return &diff{"trace-text", fmt.Sprintf("event %d at offset %d: text = input[%d:%d]", i, off, off, off+len(text)), fmt.Sprintf("event %d: %s", i, ev)}
		}
	}
	return nil
}

// outerLabelAction reports whether some action of the grammar reads a label that is bound outside
// the action's own expression (earlier in the enclosing sequence): `e:X ( Y { uses e } )`.
func outerLabelAction(g *gast.Grammar) bool {
	found := false
	for _, r := range g.Rules {
		gast.Walk(r.Expr, func(e *gast.Expr) {
			if found || e.Kind != gast.Action || e.Code == nil {
				return
			}
			inner := map[string]bool{}
			gast.Walk(e, func(x *gast.Expr) {
				if x.Kind == gast.Labeled {
					inner[x.Label] = true
				}
			})
			for _, p := range e.Params {
				if !inner[p] {
					found = true
				}
			}
		})
	}
	return found
}


// dbgKindOf maps the run time's parse functions (as named in its Debug trace) to expression kinds.
var dbgKindOf = map[string]gast.Kind{
	"parseActionExpr": gast.Action, "parseAndCodeExpr": gast.AndCode, "parseAndExpr": gast.And, "parseAnyMatcher": gast.Any,
	"parseCharClassMatcher": gast.Class, "parseChoiceExpr": gast.Choice, "parseLabeledExpr": gast.Labeled, "parseLitMatcher": gast.Lit,
	"parseNotCodeExpr": gast.NotCode, "parseNotExpr": gast.Not, "parseOneOrMoreExpr": gast.OneOrMore, "parseRuleRefExpr": gast.RuleRef,
	"parseSeqExpr": gast.Seq, "parseStateCodeExpr": gast.StateCode, "parseZeroOrMoreExpr": gast.ZeroOrMore, "parseZeroOrOneExpr": gast.ZeroOrOne,
}

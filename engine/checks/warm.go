package checks

import (
	"fmt"
	"os"
	"os/exec"
	"path/filepath"

	"verif/engine/batch"
)

// Warm builds the base build cache (std, with and without -race) that every workspace is seeded
// from by hard links. Missing cache only costs time, never correctness.
func Warm() int {
	base := filepath.Join(batch.VerifRoot, ".cache", "base")
	os.MkdirAll(base, 0o755)
	dir, err := os.MkdirTemp("", "pv-warm-")
	if err != nil {
		fmt.Println(err)
		return 0
	}
	defer os.RemoveAll(dir)
	os.WriteFile(filepath.Join(dir, "go.mod"), []byte("module warm\n\ngo 1.25.0\n"), 0o644)
	os.WriteFile(filepath.Join(dir, "main.go"), []byte(`package main

import (
	"bufio"
	"bytes"
	"encoding/json"
	"errors"
	"fmt"
	"io"
	"math"
	"os"
	"regexp"
	"runtime/debug"
	"sort"
	"strconv"
	"strings"
	"sync"
	"sync/atomic"
	"time"
	"unicode"
	"unicode/utf8"
	"embed"
)

var _ embed.FS
var _ = bufio.NewReader
var _ = bytes.NewReader
var _ = json.Marshal
var _ = errors.New
var _ = fmt.Sprint
var _ = io.EOF
var _ = math.MaxInt
var _ = os.Exit
var _ = regexp.MustCompile
var _ = debug.SetMaxStack
var _ = sort.Strings
var _ = strconv.Itoa
var _ = strings.Join
var _ sync.Mutex
var _ atomic.Int64
var _ = time.Now
var _ = unicode.IsLower
var _ = utf8.RuneError

func main() {}
`), 0o644)
	env := append(os.Environ(), "GOFLAGS=-mod=mod", "GOPROXY=off", "GOCACHE="+base)
	for _, args := range [][]string{{"build", "-o", filepath.Join(dir, "w1"), "."}, {"build", "-race", "-o", filepath.Join(dir, "w2"), "."}, {"vet", "."}} {
		cmd := exec.Command("go", args...)
		cmd.Dir = dir
		cmd.Env = env
		if out, err := cmd.CombinedOutput(); err != nil {
			fmt.Printf("warm %v: %v\n%s\n", args, err, out)
		}
	}
	// also warm the dependencies of pigeon itself
	cmd := exec.Command("go", "build", "-o", filepath.Join(dir, "pg"), ".")
	cmd.Dir = batch.Repo
	cmd.Env = env
	if out, err := cmd.CombinedOutput(); err != nil {
		fmt.Printf("warm pigeon: %v\n%s\n", err, out)
	}
	fmt.Println("build cache warmed at", base)
	return 0
}

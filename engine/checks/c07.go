package checks

import (
	"fmt"
	"math/rand"
	"strings"

	"verif/engine/batch"
	"verif/engine/gast"
	"verif/engine/mon"
	"verif/engine/ref"
)

// C07: left recursion is detected: rejected by default, never silently accepted.
func C07(c *Ctx) {
	c.Rule("rule-reference graphs of 1-6 rules with references placed after every kind of nullable prefix (? * &e !e &{} #{} \"\" nullable rules), inside later alternatives of choices whose earlier alternatives are nullable, behind predicates, next to consuming look-alikes (+, classes incl. inverted ones, any); every fourth grammar also uses throw and recover. " +
		"Each grammar is given to pigeon without -support-left-recursion. Oracle, decided by witnesses in both directions: " +
		"accepted although the independent first-call analysis finds a cycle => the model (with an active-set check) searches bounded-exhaustive and derived inputs for a concrete re-entry of a rule at an offset where it is active; the real parser is then run on that witness under Debug(true)+MaxExpressions and its own trace must not show the re-entry (and a plain run must not die of stack overflow); a static cycle without a dynamic witness is counted as inconclusive. " +
		"Rejected ('grammar contains left recursion') although the analysis finds no cycle and the model never re-enters on any generated input => violation. " +
		"distinct_nontrivial = distinct grammars with >=2 rules and >=1 rule reference reachable without consuming input")
	c.Assume("for grammars with throw/recover only the 'silently accepted' direction is decided (pigeon's static treatment of recovery expressions is a convention that may reject more); a cycle guarded by an always-false predicate has no dynamic witness and is not reported")
	rng := rand.New(rand.NewSource(c.Seed*887 + 7))
	ng := c.N(400, 6000)
	gs := append(append(c07Strata(), c07NullableRep()...), c07WithUnicode()...)
	for i := 0; i < ng; i++ {
		if i%4 == 3 {
			// throw/recover grammars: only the "silently accepted" direction is decided for them
			gs = append(gs, genRefGraphTR(rng, false, true))
			continue
		}
		gs = append(gs, genRefGraph(rng, i%3 == 0))
	}
	chunk := 200
	for lo := 0; lo < len(gs); lo += chunk {
		hi := lo + chunk
		if hi > len(gs) {
			hi = len(gs)
		}
		c.c07Chunk(gs[lo:hi], rng)
		if c.NViol() > 20 {
			break
		}
	}
	c.runKnownC07()
}

type c07w struct {
	gi      int
	in      []byte
	entry   string
	reentry string
}

func c07Inputs(g *gast.Grammar, rng *rand.Rand) [][]byte {
	ins := gast.Exhaustive([]rune("abcz"), 4, 400)
	alpha := g.Alphabet()
	for i := 0; i < 20; i++ {
		ins = append(ins, g.Sentence(rng, g.Rules[rng.Intn(len(g.Rules))].Name, alpha, 5))
	}
	return ins
}

// findReentry searches inputs x entrypoints for a dynamic re-entry in the model.
func findReentry(g *gast.Grammar, ins [][]byte) (in []byte, entry, key string, evaluated int) {
	for _, r := range g.Rules {
		for _, x := range ins {
			m := ref.Run(g, x, ref.Opts{Entry: r.Name, DetectReentry: true, StepCap: 20000, MaxEvents: 1})
			evaluated++
			if m.Reentry != "" {
				return x, r.Name, m.Reentry, evaluated
			}
		}
	}
	return nil, "", "", evaluated
}

func (c *Ctx) c07Chunk(gs []*gast.Grammar, rng *rand.Rand) {
	type info struct {
		static  bool
		exit    int
		stderr  string
		witness *c07w
		optExit int
	}
	infos := make([]*info, len(gs))
	texts := make([]string, len(gs))
	parallel(len(gs), 16, func(i int) {
		g := gs[i]
		g.Finalize()
		a := gast.Analyze(g)
		inf := &info{static: len(a.LeftRecursive()) > 0}
		texts[i] = gast.Print(g, gast.PrintOpts{Pkg: "p", Plain: true})
		res := c.W.Gen(texts[i])
		inf.exit, inf.stderr = res.Exit, res.Stderr
		inf.optExit = -1
		if inf.static {
			// the same grammar through the optimizer: its rewriting must not hide the cycle from the
			// analysis that follows it (it may remove a cycle only by removing the rules that form it)
			inf.optExit = c.W.Gen(texts[i], "-optimize-grammar").Exit
		}
		infos[i] = inf
		c.Eval(1)
		if len(g.Rules) >= 2 {
			for _, m := range a.First {
				if len(m) > 0 {
					c.Distinct(texts[i])
					break
				}
			}
		}
	})
	// decide
	var accepted []*gast.Grammar
	var accIdx []int
	var acyclic []*gast.Grammar
	defer func() { c.c07RunTraced(acyclic, rng, false) }()
	// accepted although the analysis finds a cycle, and the model has no witness (its interpreter does
	// not get past a repetition whose operand matches empty, for instance): the generated parser's own
	// trace decides - whatever the run time does with such a repetition, it must not re-enter a rule
	var noWitness []*gast.Grammar
	defer func() { c.c07RunTraced(noWitness, rng, true) }()
	var optAcc []*gast.Grammar
	var optW []*c07w
	defer func() { c.c07RunOptAccepted(optAcc, optW) }()
	for i, g := range gs {
		if infos[i].static && infos[i].optExit == 0 {
			// only the first rule is an entrypoint of the optimized parser
			ins := c07Inputs(g, rng)
			for _, x := range ins {
				m := ref.Run(g, x, ref.Opts{Entry: g.Rules[0].Name, DetectReentry: true, StepCap: 20000, MaxEvents: 1})
				if m.Reentry != "" {
					optAcc = append(optAcc, g)
					optW = append(optW, &c07w{gi: i, in: x, entry: "", reentry: m.Reentry})
					break
				}
			}
		}
	}
	for i, g := range gs {
		inf := infos[i]
		rejectedLR := inf.exit == 5 && strings.Contains(inf.stderr, "left recursion")
		switch {
		case inf.exit != 0 && !rejectedLR:
			c.CovSet("other_exit", fmt.Sprintf("%d %s", inf.exit, shortFail(firstLine(inf.stderr))))
		case rejectedLR && inf.static:
			c.CovAdd("rejected_and_cyclic", 1)
			if i%50 == 3 {
				c.Sample(map[string]any{"grammar": gast.Short(g), "pigeon": "rejected: left recursion", "model": "first-call cycle"})
			}
		case rejectedLR && !inf.static:
			if g.KindsUsed()[gast.Throw]+g.KindsUsed()[gast.Recovery] > 0 {
				c.CovAdd("throw_recover_rejections_not_judged", 1) // pigeon's static treatment is a convention
				continue
			}
			_, _, key, n := findReentry(g, c07Inputs(g, rng))
			if key != "" {
				c.Broken("the model re-enters " + key + " although its own static analysis finds no cycle: " + gast.Short(g))
				continue
			}
			c.Report(&Violation{Class: "C07/wrongly-rejected", Summary: fmt.Sprintf("pigeon rejects a grammar as left-recursive in which no rule can reach itself at the same offset (first-call analysis finds no cycle; the model never re-enters a rule on %d evaluated (entrypoint, input) pairs): %q", n, gast.Short(g)),
				Grammar: texts[i], Sig: c07Sig(g, "rejected")})
		case inf.exit == 0 && !inf.static:
			c.CovAdd("accepted_and_acyclic", 1)
			if g.KindsUsed()[gast.Throw]+g.KindsUsed()[gast.Recovery] == 0 {
				acyclic = append(acyclic, g)
			}
			if i%50 == 7 {
				c.Sample(map[string]any{"grammar": gast.Short(g), "pigeon": "accepted", "model": "no first-call cycle"})
			}
		case inf.exit == 0 && inf.static:
			in, entry, key, _ := findReentry(g, c07Inputs(g, rng))
			if key == "" {
				c.Inconclusive("static_cycle_without_dynamic_witness")
				if g.KindsUsed()[gast.Throw]+g.KindsUsed()[gast.Recovery] == 0 {
					noWitness = append(noWitness, g)
				}
				continue
			}
			inf.witness = &c07w{gi: i, in: in, entry: entry, reentry: key}
			accepted = append(accepted, g)
			accIdx = append(accIdx, i)
		}
	}
	if len(accepted) == 0 {
		return
	}
	// run the real parsers of the silently accepted grammars on their witnesses
	bt := c.BuildUnits(accepted, [][]string{{}}, false, nil)
	defer bt.Close()
	var cases []*mon.Case
	for k, u := range bt.Units {
		w := infos[accIdx[k]].witness
		if !u.OK {
			c.CovSet("witness_unit_not_built", shortFail(u.Fail))
			if u.Gen.Exit == 0 && !u.Skip {
				// pigeon exited 0 for a grammar in which the model re-enters a rule on a concrete input, and
				// what it wrote is not even a parser: the grammar was not rejected with a build error
				g := accepted[k]
				c.Report(&Violation{Class: "C07/silently-accepted", Summary: fmt.Sprintf("pigeon exits 0 without -support-left-recursion for a left-recursive grammar (the model re-enters %s on input %q, entrypoint %q) and its output does not build (%s); grammar %q",
					w.reentry, w.in, w.entry, shortFail(u.Fail), gast.Short(g)), Grammar: u.Text, Input: w.in, Sig: c07Sig(g, "accepted")})
			}
			continue
		}
		cases = append(cases, &mon.Case{ID: fmt.Sprintf("dbg/%d", k), Pkg: u.Pkg, Input: w.in, Entry: w.entry, Debug: true, MaxExpr: 3000, MaxEvents: 10})
	}
	res := bt.Run(cases, batch.RunOpts{})
	var plain []*mon.Case
	for k, u := range bt.Units {
		if !u.OK {
			continue
		}
		w := infos[accIdx[k]].witness
		r := res[fmt.Sprintf("dbg/%d", k)]
		if r == nil || r.Dbg == nil {
			c.Inconclusive("no_debug_result")
			continue
		}
		if r.Dbg.Reentry == "" {
			c.Inconclusive("model_reenters_but_real_trace_does_not")
			continue
		}
		g := accepted[k]
		c.Report(&Violation{Class: "C07/silently-accepted", Summary: fmt.Sprintf("pigeon accepts a left-recursive grammar without -support-left-recursion: on input %q (entrypoint %q) the generated parser re-enters %s while it is already being evaluated there (seen in its own Debug trace; only MaxExpressions stopped the descent); grammar %q",
			w.in, w.entry, strings.TrimPrefix(r.Dbg.Reentry, "parseRule "), gast.Short(g)),
			Grammar: u.Text, Input: w.in, Case: cases[0], Sig: c07Sig(g, "accepted"), Extra: map[string]any{"model_reentry": w.reentry, "trace_reentry": r.Dbg.Reentry}})
		if len(plain) < 3 {
			plain = append(plain, &mon.Case{ID: fmt.Sprintf("plain/%d", k), Pkg: u.Pkg, Input: w.in, Entry: w.entry, MaxEvents: 10})
		}
	}
	if len(plain) > 0 {
		pr := bt.Run(plain, batch.RunOpts{MaxDeaths: 5, NoRetry: true})
		for _, cs := range plain {
			if r := pr[cs.ID]; r != nil && strings.Contains(r.Died, "stack overflow") {
				c.CovAdd("plain_runs_dying_of_stack_overflow", 1)
			}
		}
	}
}

// c07RunOptAccepted: grammars with a first-call cycle (and a dynamic witness from the first rule) that
// pigeon accepts under -optimize-grammar without -support-left-recursion. The optimizer may have
// removed the cycle legitimately (dead rules), so the verdict is left to the generated parser's own
// trace on the witness.
func (c *Ctx) c07RunOptAccepted(gs []*gast.Grammar, ws []*c07w) {
	if len(gs) == 0 {
		return
	}
	bt := c.BuildUnits(gs, [][]string{{"-optimize-grammar"}}, false, nil)
	defer bt.Close()
	var cases []*mon.Case
	for k, u := range bt.Units {
		if !u.OK {
			c.CovSet("witness_unit_not_built", shortFail(u.Fail))
			continue
		}
		cases = append(cases, &mon.Case{ID: fmt.Sprintf("optdbg/%d", k), Pkg: u.Pkg, Input: ws[k].in, Debug: true, MaxExpr: 3000, MaxEvents: 10})
	}
	res := bt.Run(cases, batch.RunOpts{})
	for k, u := range bt.Units {
		if !u.OK {
			continue
		}
		c.Eval(1)
		c.CovAdd("accepted_under_optimize_grammar_with_model_witness", 1)
		r := res[fmt.Sprintf("optdbg/%d", k)]
		if r == nil || r.Dbg == nil {
			c.Inconclusive("no_debug_result")
			continue
		}
		if r.Dbg.Reentry == "" {
			continue // the optimizer removed the cycle (or the witness does not carry over): nothing observed
		}
		g := gs[k]
		c.Report(&Violation{Class: "C07/silently-accepted-optimized", Summary: fmt.Sprintf("pigeon -optimize-grammar accepts a left-recursive grammar without -support-left-recursion: on input %q the generated parser re-enters %s while it is already being evaluated there (its own Debug trace); grammar %q",
			ws[k].in, strings.TrimPrefix(r.Dbg.Reentry, "parseRule "), gast.Short(g)),
			Grammar: u.Text, Flags: u.Flags, Input: ws[k].in, Sig: c07Sig(g, "accepted"), Extra: map[string]any{"model_reentry": ws[k].reentry, "trace_reentry": r.Dbg.Reentry}})
	}
}

// c07RunAcyclic is the consequence clause observed directly: the parsers of accepted grammars in
// which the independent analysis finds no cycle are run under Debug(true) (with a budget that stops
// a runaway descent) and their own traces must not show a rule entered at an offset at which it is
// already being evaluated - whatever the reason (a terminal that matches without consuming at the
// end of input makes a right recursion re-enter, for instance).
func (c *Ctx) c07RunTraced(gs []*gast.Grammar, rng *rand.Rand, cyclic bool) {
	if len(gs) == 0 {
		return
	}
	if lim := c.N(70, 400); len(gs) > lim {
		// strata first (they are at the front of the first chunk), then an even sample
		keep := append([]*gast.Grammar{}, gs[:lim/2]...)
		step := (len(gs) - lim/2) / (lim / 2)
		if step < 1 {
			step = 1
		}
		for i := lim / 2; i < len(gs) && len(keep) < lim; i += step {
			keep = append(keep, gs[i])
		}
		gs = keep
	}
	bt := c.BuildUnits(gs, [][]string{{}, {"-optimize-basic-latin"}}, false, nil)
	defer bt.Close()
	var cases []*mon.Case
	type ck struct {
		u  *Unit
		in []byte
		e  string
	}
	keys := map[string]ck{}
	for _, u := range bt.Units {
		if !u.OK {
			continue
		}
		alpha := u.G.Alphabet()
		ins := [][]byte{{}, []byte("a"), []byte("+="), []byte("ab\n"), []byte("a\xff"), []byte("\xef\xbf\xbd"), []byte("é€")}
		for i := 0; i < 8; i++ {
			s := u.G.Sentence(rng, u.G.Rules[rng.Intn(len(u.G.Rules))].Name, alpha, 5)
			if i%2 == 1 {
				s = gast.Mutate(rng, s, alpha, true)
			}
			ins = append(ins, s)
		}
		for i, in := range ins {
			e := u.G.Rules[i%len(u.G.Rules)].Name
			id := fmt.Sprintf("ac/%s/%d", u.Pkg, i)
			keys[id] = ck{u, in, e}
			cases = append(cases, &mon.Case{ID: id, Pkg: u.Pkg, Input: in, Entry: e, Debug: true, AllowInvalid: i%2 == 0, MaxExpr: 4000, MaxEvents: 10})
		}
	}
	res := bt.Run(cases, batch.RunOpts{MaxDeaths: 4})
	for _, cs := range cases {
		r := res[cs.ID]
		k := keys[cs.ID]
		c.Eval(1)
		if r == nil || r.Dbg == nil {
			c.Inconclusive("no_debug_result")
			continue
		}
		if cyclic {
			c.CovAdd("parses_traced_of_accepted_grammars_with_a_static_cycle_and_no_model_witness", 1)
			if r.Dbg.Reentry != "" {
				c.Report(&Violation{Class: "C07/silently-accepted", Summary: fmt.Sprintf("pigeon accepts a grammar with a first-call cycle without -support-left-recursion, and the generated parser re-enters %s while it is already being evaluated at that offset (its own Debug trace; the model has no witness of its own for this grammar; input %q, entrypoint %q, flags [%s]); grammar %q",
					strings.TrimPrefix(r.Dbg.Reentry, "parseRule "), k.in, k.e, k.u.FlagID, gast.Short(k.u.G)), Grammar: k.u.Text, Flags: k.u.Flags, Input: k.in, Case: cs, Sig: c07Sig(k.u.G, "accepted")})
			}
			continue
		}
		c.CovAdd("acyclic_parses_traced", 1)
		c.CovAdd("acyclic_trace_lines", r.Dbg.Lines)
		if r.Dbg.Reentry != "" {
			c.Report(&Violation{Class: "C07/reentry-in-acyclic-grammar", Summary: fmt.Sprintf("a parser generated without -support-left-recursion from a grammar without any first-call cycle re-enters %s while it is already being evaluated at that offset (its own Debug trace; input %q, entrypoint %q, flags [%s]); grammar %q",
				strings.TrimPrefix(r.Dbg.Reentry, "parseRule "), k.in, k.e, k.u.FlagID, gast.Short(k.u.G)), Grammar: k.u.Text, Flags: k.u.Flags, Input: k.in, Case: cs})
		}
	}
}

// c07Sig classifies a silently accepted grammar under the known findings F13 / F18 with an
// emulation of pigeon's own analysis (c07emu.go); anything else is a violation.
func c07Sig(g *gast.Grammar, dir string) []string {
	if dir != "accepted" {
		return nil
	}
	full := pigeonSeesCycle(g, false)
	if !full && g.KindsUsed()[gast.Throw] > 0 {
		// the re-entry goes through a throw whose handler is in force only dynamically (it is not
		// part of the rule that throws): invisible to pigeon's per-rule convention as designed
		return []string{"F18-dynamic-handler-cycle"}
	}
	if full && !pigeonSeesCycle(g, true) {
		// found when every alternative of a choice is visited, lost by the short-circuit
		return []string{"F13-choice-nullable-shortcircuit"}
	}
	return nil
}

func (c *Ctx) runKnownC07() {
	if len(c.KnownIDs()) == 0 {
		return
	}
	g := &gast.Grammar{Rules: []*gast.Rule{
		{Name: "S", Expr: gast.C(gast.NotE(gast.Dot()), gast.S(gast.Ref("W"), gast.Ref("S")))},
		{Name: "W", Expr: gast.Star(gast.Cl(gast.Chars(" \t")))},
	}}
	g.Finalize()
	res := c.W.Gen(gast.Print(g, gast.PrintOpts{Pkg: "p", Plain: true}))
	c.MarkKnownStillFails("F13-choice-nullable-shortcircuit", res.Exit == 0)
	g2 := &gast.Grammar{Rules: []*gast.Rule{
		{Name: "A", Expr: gast.Rec(gast.Ref("B"), gast.Ref("R"), "L1")},
		{Name: "B", Expr: gast.S(gast.L("x"), gast.Ref("C"))},
		{Name: "C", Expr: gast.Thr("L1")},
		{Name: "R", Expr: gast.Ref("C")},
	}}
	g2.Finalize()
	res2 := c.W.Gen(gast.Print(g2, gast.PrintOpts{Pkg: "p", Plain: true}))
	c.MarkKnownStillFails("F18-dynamic-handler-cycle", res2.Exit == 0)
	c.Eval(2)
}

// c07NullableRep: a + (or *) repetition whose operand can match empty, directly before a reference
// back to the enclosing rule. The analysis sees a cycle (the repetition can succeed without
// consuming); whether the run time spins in the repetition until the budget ends or leaves it after an
// empty iteration, the rule behind it must not be entered again at the same offset.
// c07WithUnicode: plainly left-recursive grammars (direct, indirect, behind a nullable prefix) that also
// use Unicode classes, inverted classes and caseless matchers somewhere - the rejection does not depend
// on what else the builder has to emit for the grammar.
func c07WithUnicode() []*gast.Grammar {
	mk := func(rules ...*gast.Rule) *gast.Grammar { return &gast.Grammar{Rules: rules} }
	r := func(n string, e *gast.Expr) *gast.Rule { return &gast.Rule{Name: n, Expr: e} }
	ul := func(n ...string) *gast.Expr { return gast.Cl(&gast.ClassSpec{UClasses: n}) }
	return []*gast.Grammar{
		mk(r("S", gast.C(gast.S(gast.Ref("S"), ul("L")), gast.L("x")))),
		mk(r("A", gast.C(gast.S(gast.Ref("B"), gast.L("x")), ul("N"))), r("B", gast.S(gast.Ref("A"), ul("Lu", "Nd")))),
		mk(r("S", gast.S(gast.Ref("W"), gast.C(gast.S(gast.Ref("S"), gast.L("+")), gast.Ref("I")))), r("W", gast.Star(ul("Zs"))), r("I", gast.Plus(gast.Cl(&gast.ClassSpec{UClasses: []string{"Ll"}, Chars: []rune("_"), IgnoreCase: true})))),
		mk(r("S", gast.C(gast.S(gast.Opt(gast.Li("é")), gast.Ref("S"), gast.L("!")), gast.Cl(&gast.ClassSpec{UClasses: []string{"Greek"}, Inverted: true})))),
		// references to rules that are defined nowhere, at initial positions (pigeon accepts such a
		// grammar and the parser reports the undefined rule when it gets there): no cycle, no re-entry
		mk(r("Doc", gast.S(gast.Opt(gast.Ref("Shebang")), gast.Star(gast.Ref("Line")), gast.NotE(gast.Dot()))), r("Line", gast.S(gast.Plus(gast.Cl(gast.Chars("ab"))), gast.L("\n")))),
		mk(r("A", gast.C(gast.S(gast.AndE(gast.Ref("Nowhere")), gast.L("a")), gast.S(gast.Ref("B"), gast.L("b")), gast.L("c"))), r("B", gast.C(gast.Ref("Missing"), gast.S(gast.L("x"), gast.Ref("A"))))),
	}
}

func c07NullableRep() []*gast.Grammar {
	mk := func(rules ...*gast.Rule) *gast.Grammar { return &gast.Grammar{Rules: rules} }
	r := func(n string, e *gast.Expr) *gast.Rule { return &gast.Rule{Name: n, Expr: e} }
	blank := func() *gast.Rule { return r("B", gast.S(gast.Star(gast.Cl(gast.Chars(" \t"))), gast.Opt(gast.L("\n")))) }
	line := func() *gast.Rule { return r("L", gast.S(gast.Plus(gast.Cl(gast.Chars("ab"))), gast.L("\n"))) }
	return []*gast.Grammar{
		mk(r("S", gast.C(gast.S(gast.Plus(gast.Ref("B")), gast.Ref("S")), gast.S(gast.Ref("L"), gast.Ref("S")), gast.NotE(gast.Dot()))), blank(), line()),
		mk(r("S", gast.C(gast.S(gast.Plus(gast.Opt(gast.L("a"))), gast.Ref("S")), gast.L("b")))),
		mk(r("S", gast.C(gast.S(gast.Plus(gast.Star(gast.L("a"))), gast.Ref("T")), gast.L("b"))), r("T", gast.C(gast.S(gast.L("c"), gast.Ref("S")), gast.Ref("S")))),
		mk(r("S", gast.S(gast.Ref("W"), gast.C(gast.S(gast.Plus(gast.AndE(gast.Dot())), gast.Ref("S")), gast.L("x")))), r("W", gast.Star(gast.L(" ")))),
		mk(r("S", gast.C(gast.S(gast.Lab("p", gast.Plus(gast.Ref("B"))), gast.Lab("q", gast.Ref("S"))), gast.S(gast.Ref("L"), gast.Ref("S")), gast.L(""))), blank(), line()),
	}
}

func c07Strata() []*gast.Grammar {
	mk := func(rules ...*gast.Rule) *gast.Grammar { return &gast.Grammar{Rules: rules} }
	r := func(n string, e *gast.Expr) *gast.Rule { return &gast.Rule{Name: n, Expr: e} }
	rr := func(t *gast.Expr) *gast.Grammar {
		// right recursion through one terminal: fine as long as the terminal cannot match without consuming
		return mk(r("S", gast.C(gast.S(t, gast.Ref("S")), gast.L(""))))
	}
	// nullable only through a long chain of rule references (120 rules), written top-down and bottom-up
	chain := func(up bool) *gast.Grammar {
		name := func(i int) string { return fmt.Sprintf("R%03d", i) }
		rules := []*gast.Rule{r("A", gast.C(gast.S(gast.Ref(name(1)), gast.Ref("A"), gast.L("a")), gast.L("b")))}
		var rest []*gast.Rule
		for i := 1; i < 120; i++ {
			rest = append(rest, r(name(i), gast.Ref(name(i+1))))
		}
		rest = append(rest, r(name(120), gast.Opt(gast.L("x"))))
		if up {
			for a, b := 0, len(rest)-1; a < b; a, b = a+1, b-1 {
				rest[a], rest[b] = rest[b], rest[a]
			}
		}
		return mk(append(rules, rest...)...)
	}
	return []*gast.Grammar{
		chain(false), chain(true),
		rr(gast.Cl(gast.Chars("\ufffd"))), rr(gast.Cl(&gast.ClassSpec{Ranges: [][2]rune{{0x80, 0xffff}}})), rr(gast.Cl(&gast.ClassSpec{UClasses: []string{"So"}})), rr(gast.Cl(&gast.ClassSpec{UClasses: []string{"S"}, Chars: []rune("a")})),
		rr(gast.Cl(&gast.ClassSpec{Chars: []rune("\ufffdé"), IgnoreCase: true})), rr(gast.Cl(&gast.ClassSpec{Chars: []rune("a"), Inverted: true})), rr(gast.L("\ufffd")), rr(gast.Dot()),
		rr(gast.Cl(&gast.ClassSpec{Chars: []rune("+=\ufffd")})),
		mk(r("S", gast.C(gast.S(gast.AndE(gast.Ref("S")), gast.L("a")), gast.L("b")))),
		mk(r("S", gast.C(gast.S(gast.NotE(gast.Ref("S")), gast.L("a")), gast.L("b")))),
		mk(r("S", gast.C(gast.NotE(gast.Dot()), gast.S(gast.Ref("W"), gast.Ref("S")))), r("W", gast.Star(gast.Cl(gast.Chars(" \t"))))),
		mk(r("S", gast.C(gast.S(gast.Cl(&gast.ClassSpec{Inverted: true}), gast.Ref("S")), gast.L("x")))),
		mk(r("S", gast.C(gast.S(gast.Opt(gast.L("a")), gast.Ref("T")), gast.L("b"))), r("T", gast.S(gast.Star(gast.L("c")), gast.Ref("S")))),
		mk(r("S", gast.S(gast.Plus(gast.L("a")), gast.Ref("S"))), r("T", gast.S(gast.Dot(), gast.Ref("T")))),
		// leading-whitespace idiom: the nullable rule sorts after the others and leads back into the cycle behind a consuming item
		mk(r("Expr", gast.C(gast.S(gast.Ref("_"), gast.Ref("Expr"), gast.L("+"), gast.Ref("Term")), gast.Ref("Term"))),
			r("_", gast.Star(gast.C(gast.L(" "), gast.Ref("Comment")))), r("Comment", gast.S(gast.L("/*"), gast.Opt(gast.Ref("Expr")), gast.L("*/"))), r("Term", gast.Plus(gast.Cl(gast.Chars("01"))))),
		mk(r("A", gast.C(gast.S(gast.Ref("zz"), gast.Ref("A"), gast.L("x")), gast.L("y"))), r("zz", gast.Opt(gast.S(gast.L("("), gast.Ref("A"), gast.L(")"))))),
		mk(r("A", gast.Rec(gast.Ref("B"), gast.Ref("R"), "L1")), r("B", gast.S(gast.L("x"), gast.Ref("C"))), r("C", gast.Thr("L1")), r("R", gast.Ref("C"))),
		mk(r("Stmt", gast.Rec(gast.S(gast.Ref("Expr"), gast.L(";")), gast.Ref("Resync"), "L1")), r("Expr", gast.C(gast.Plus(gast.Cl(gast.Chars("01"))), gast.Thr("L1"))),
			r("Resync", gast.S(gast.Star(gast.Cl(&gast.ClassSpec{Chars: []rune(";01"), Inverted: true})), gast.Ref("Stmt")))),
		// a rule defined twice; only the later definition (the one that counts) is left-recursive / is not
		mk(r("S", gast.S(gast.Ref("List"), gast.NotE(gast.Dot()))), r("List", gast.L("x")), r("Item", gast.Cl(gast.Chars("ab"))), r("List", gast.C(gast.S(gast.Ref("List"), gast.L(","), gast.Ref("Item")), gast.Ref("Item")))),
		mk(r("S", gast.S(gast.Ref("List"), gast.NotE(gast.Dot()))), r("List", gast.C(gast.S(gast.Ref("List"), gast.L(","), gast.Ref("Item")), gast.Ref("Item"))), r("Item", gast.Cl(gast.Chars("ab"))), r("List", gast.S(gast.Ref("Item"), gast.Star(gast.S(gast.L(","), gast.Ref("Item")))))),
		// a LABELLED nullable prefix before the recursive reference, in an alternative after a nullable one
		// that can still fail at run time / in a recovery expression after a nullable guarded expression
		mk(r("Expr", gast.S(gast.C(gast.AndE(gast.L("(")), gast.S(gast.Lab("n", gast.Opt(gast.L("-"))), gast.Ref("Expr"))), gast.Ref("Atom"))), r("Atom", gast.Cl(gast.Chars("ab(")))),
		mk(r("R", gast.Rec(gast.S(gast.Opt(gast.L("a")), gast.Thr("L1")), gast.S(gast.Lab("s", gast.Star(gast.L(" "))), gast.Ref("R")), "L1"))),
		// a nullable left-recursive rule whose recursive reference follows a nullable helper rule; the
		// helper's name sorts after / before the rule's name
		mk(r("Items", gast.C(gast.S(gast.Ref("Sep"), gast.Ref("Items"), gast.Ref("Item")), gast.L(""))), r("Sep", gast.Star(gast.L(","))), r("Item", gast.Cl(gast.Chars("ab")))),
		mk(r("Items", gast.C(gast.S(gast.Ref("Comma"), gast.Ref("Items"), gast.Ref("Item")), gast.L(""))), r("Comma", gast.Star(gast.L(","))), r("Item", gast.Cl(gast.Chars("ab")))),
		// a negative lookahead over an operand that can match empty (it may still succeed) before the recursive reference
		mk(r("Items", gast.C(gast.S(gast.NotE(gast.S(gast.Ref("W"), gast.Ref("E"))), gast.Ref("Items"), gast.Ref("Item")), gast.L(""))), r("W", gast.Star(gast.L(" "))), r("E", gast.NotE(gast.Dot())), r("Item", gast.Cl(gast.Chars("ab")))),
		mk(r("A", gast.C(gast.S(gast.NotE(gast.Opt(gast.L("x"))), gast.Ref("A")), gast.S(gast.AndE(gast.Star(gast.L("y"))), gast.Ref("A"), gast.L("z")), gast.L("b")))),
		// the operand of a lookahead starts with a nullable rule / group and then calls the rule itself
		mk(r("Item", gast.S(gast.NotE(gast.S(gast.Ref("Indent"), gast.Ref("Item"))), gast.Ref("Word"))), r("Indent", gast.Star(gast.L(" "))), r("Word", gast.Plus(gast.Cl(gast.Chars("ab"))))),
		mk(r("Item", gast.S(gast.AndE(gast.S(gast.C(gast.L("x"), gast.L("")), gast.Opt(gast.L("y")), gast.Ref("Item"))), gast.Ref("Word"))), r("Word", gast.Plus(gast.Cl(gast.Chars("ab"))))),
		mk(r("Args", gast.C(gast.S(gast.L(""), gast.Ref("Args"), gast.L(","), gast.Ref("Arg")), gast.Ref("Arg"))), r("Arg", gast.Cl(gast.Chars("ab")))),
		// a throw that is not the last item of its sequence, recovered by an expression that can match
		// the empty string: the rule is re-entered at the same offset
		mk(r("Start", gast.Rec(gast.Ref("List"), gast.Ref("Junk"), "L1")), r("List", gast.C(gast.S(gast.Ref("Item"), gast.Ref("List")), gast.NotE(gast.Dot()), gast.S(gast.Thr("L1"), gast.Ref("List")))),
			r("Item", gast.Cl(gast.Chars("ab"))), r("Junk", gast.Star(gast.Cl(gast.Chars("01"))))),
		// an alternative that matches only sometimes (a rule holding a predicate) before the left-recursive one
		mk(r("List", gast.C(gast.Ref("AtEnd"), gast.S(gast.Ref("List"), gast.Ref("Item")), gast.Ref("Item"))), r("AtEnd", gast.AndE(gast.L("."))), r("Item", gast.Cl(gast.Chars("ab")))),
		mk(r("S", gast.S(gast.Opt(gast.S(gast.Ref("N"), gast.Ref("S"))), gast.L("x"))), r("N", gast.Opt(gast.L("a")))),
		mk(r("S", gast.S(gast.Star(gast.S(gast.Ref("N"), gast.Ref("S"), gast.L("y"))), gast.L("x"))), r("N", gast.Opt(gast.L("a")))),
	}
}

package checks

import (
	"bytes"
	"fmt"
	"math/rand"

	"verif/engine/gast"
	"verif/engine/mon"
)

func stateProfile() *gast.Profile {
	p := pegProfile()
	p.W[gast.StateCode] = 14
	p.W[gast.Action] = 10
	p.ActSpec = func(r *rand.Rand) mon.Spec {
		return mon.Spec{R: pick(r, 0, 0, 1, 3), Scr: r.Intn(3) == 0, G: r.Intn(2) == 0}
	}
	p.PredSpec = func(r *rand.Rand) mon.Spec { return mon.Spec{B: pick(r, 0, 0, 1, 3, 3, 4), Scr: r.Intn(2) == 0} }
	p.W[gast.AndCode] = 8
	p.W[gast.NotCode] = 5
	p.StateSpec = func(r *rand.Rand) mon.Spec {
		return mon.Spec{S: 1 + r.Intn(31), G: r.Intn(2) == 0, E: pick(r, 0, 0, 0, 1)}
	}
	return p
}

func errorProfile() *gast.Profile {
	p := pegProfile()
	p.W[gast.Action] = 16
	p.PDisplay = 40
	p.ActSpec = func(r *rand.Rand) mon.Spec {
		return mon.Spec{R: pick(r, 0, 0, 1, 3), E: pick(r, 0, 0, 1, 2, 2, 3, 4), P: pick(r, 0, 0, 0, 0, 0, 0, 1, 2, 3)}
	}
	p.PredSpec = func(r *rand.Rand) mon.Spec { return mon.Spec{B: pick(r, 0, 0, 1, 4), E: pick(r, 0, 0, 1, 3)} }
	return p
}

func throwProfile() *gast.Profile {
	p := pegProfile()
	p.ThrowLabels = []string{"L1", "L2", "L3"}
	p.W[gast.Throw] = 12
	p.W[gast.Recovery] = 14
	p.W[gast.Action] = 12
	return p
}

// inputsFor draws derived, mutated and bounded-exhaustive inputs for a grammar.
func (c *Ctx) inputsFor(g *gast.Grammar, rng *rand.Rand, n, exhaust int, invalid bool) [][]byte {
	return c.mcInputs(&MCConfig{InputsPer: n, ExhaustLimit: exhaust, ExhaustLen: 6, Invalid: invalid}, g, rng)
}

// C10: -optimize-parser output is observationally equivalent.
func C10(c *Ctx) {
	c.Rule("pairs of real parsers generated from the same grammar with flags X and X + -optimize-parser, X in {none, -optimize-basic-latin, -support-left-recursion (incl. left-recursive grammars), -optimize-grammar}; grammars from the PEG, state, error/panic, throw/recover and left-recursion profiles; " +
		"oracle = differential under default runtime options (and Recover(false)): value, rendered error list, consumed prefix, code-block trace incl. state snapshots, final state store, escaping panic; " +
		"plus a static inspection: an optimized parser of a grammar without state blocks must not contain the state machinery (statePool / cloneState / restoreState). " +
		"distinct_nontrivial = distinct (grammar, input, options) whose reference run executed >=2 code blocks or returned an error")
	rng := rand.New(rand.NewSource(c.Seed*977 + 10))
	n := c.N(160, 2000)
	profiles := []*gast.Profile{pegProfile(), stateProfile(), errorProfile(), throwProfile()}
	var gs []*gast.Grammar
	var lr []bool
	var xi []int // index into xs (base flag set) per grammar
	fold := &gast.Grammar{Rules: []*gast.Rule{{Name: "S", Expr: gast.S(gast.Star(gast.C(gast.Cl(&gast.ClassSpec{Ranges: [][2]rune{{'a', 'z'}}, IgnoreCase: true}),
		gast.Cl(&gast.ClassSpec{Chars: []rune("Ω-"), IgnoreCase: true}), gast.Li("å"))), gast.NotE(gast.Dot()))}}}
	// a rule name defined twice with different bodies (a base grammar followed by an overriding part)
	// (no blocks in the duplicated rule: their method names would be the same)
	dup := &gast.Grammar{Rules: []*gast.Rule{{Name: "S", Expr: gast.S(gast.Star(gast.C(gast.A(gast.Lab("a", gast.Ref("A")), 1, mon.Spec{}), gast.Ref("B"))), gast.Star(gast.Dot()))},
		{Name: "A", Expr: gast.L("a")}, {Name: "B", Expr: gast.A(gast.S(gast.L("b"), gast.Lab("a", gast.Ref("A"))), 3, mon.Spec{})}, {Name: "A", Expr: gast.Plus(gast.L("x"))}}}
	// classes with many ranges, some nested in or overlapping an earlier one, listed in no order (a
	// lookup that sorts or bisects the ranges must still accept what the plain scan accepts)
	wideRanges := [][2]rune{{'q', 's'}, {'a', 'z'}, {'c', 'f'}, {'A', 'Z'}, {'0', '9'}, {'α', 'ω'}, {'β', 'δ'}, {'А', 'я'}, {'ぁ', 'ん'}, {'ァ', 'ヺ'}, {'가', '힣'}, {'나', '다'}, {'E', 'e'}}
	wide := &gast.Grammar{Rules: []*gast.Rule{{Name: "S", Expr: gast.S(gast.Star(gast.C(gast.Cl(&gast.ClassSpec{Ranges: wideRanges}), gast.L("-"))), gast.NotE(gast.Dot()))}}}
	wideInv := &gast.Grammar{Rules: []*gast.Rule{{Name: "S", Expr: gast.S(gast.Star(gast.C(gast.Cl(&gast.ClassSpec{Ranges: wideRanges, Inverted: true}), gast.L("m"))), gast.Star(gast.Dot()))}}}
	wideCI := &gast.Grammar{Rules: []*gast.Rule{{Name: "S", Expr: gast.S(gast.Star(gast.C(gast.Cl(&gast.ClassSpec{Ranges: wideRanges[:9], Chars: []rune("_#"), IgnoreCase: true}), gast.L("-"))), gast.Star(gast.Dot()))}}}
	// the fixed shapes run under every base flag set
	for k := 0; k < 4; k++ {
		for _, g := range append(append(append(c05Strata(), rollbackStrata()[:20]...), c02Strata()...), append(append(c14Strata(), c01Strata()[:6]...), fold, dup, wide, wideInv, wideCI)...) {
			gs = append(gs, g.Clone())
			lr = append(lr, false)
			xi = append(xi, k)
		}
	}
	for i := 0; i < n; i++ {
		xi = append(xi, (i/5)%4)
		if i%5 == 4 {
			gs = append(gs, genLR(rng, i%2 == 0))
			lr = append(lr, true)
			continue
		}
		gs = append(gs, gast.Generate(rng, profiles[i%len(profiles)]))
		lr = append(lr, false)
	}
	xs := [][]string{{}, {"-optimize-basic-latin"}, {"-support-left-recursion"}, {"-optimize-grammar"}}
	inputs := map[int][][]byte{}
	cfg := &DiffConfig{
		Grammars: gs,
		IsLR:     func(gi int) bool { return lr[gi] },
		VarFor: func(gi int, g *gast.Grammar) [][]string {
			x := xs[xi[gi]]
			if lr[gi] {
				x = []string{"-support-left-recursion"}
			}
			return [][]string{x, append(append([]string{}, x...), "-optimize-parser")}
		},
		Cases: func(gi int, g *gast.Grammar) []*mon.Case {
			ins := c.inputsFor(g, rng, c.N(70, 160), c.N(120, 500), false)
			if lr[gi] {
				ins = append(ins, lrInputs(g, rng, c.N(60, 150))...)
			}
			inputs[gi] = ins
			var cs []*mon.Case
			alpha := g.Alphabet()
			for ii, in := range ins {
				cs = append(cs, &mon.Case{Input: in, MaxExpr: 400000, MaxEvents: 400})
				if ii%3 == 0 {
					cs = append(cs, &mon.Case{Input: in, NoRecover: true, MaxExpr: 400000, MaxEvents: 400})
				}
				if ii%5 == 2 {
					// through ParseReader, with readers that deliver their bytes all at once, together with
					// io.EOF, one at a time or in halves (the entry points are template text as well)
					cs = append(cs, &mon.Case{Input: in, Reader: true, MaxExpr: 400000, MaxEvents: 400})
				}
				if ii%4 == 1 && len(in) > 0 {
					// invalid UTF-8 inside the input (also right after a proper prefix of a literal), both modes
					bad := gast.Mutate(rng, in, alpha, true)
					cut := rng.Intn(len(in) + 1)
					bad2 := append(append(append([]byte{}, in[:cut]...), gast.InvalidSeqs[rng.Intn(len(gast.InvalidSeqs))]...), in[cut:]...)
					for _, b := range [][]byte{bad, bad2} {
						cs = append(cs, &mon.Case{Input: b, MaxExpr: 400000, MaxEvents: 400}, &mon.Case{Input: b, AllowInvalid: true, MaxExpr: 400000, MaxEvents: 400})
					}
				}
			}
			return cs
		},
		Compare:      stdCompare(true, true),
		NonTrivial:   func(r *mon.Result, cs *mon.Case) bool { return len(r.Trace) >= 2 || !r.ErrNil },
		SkipNotBuilt: true,
		OnUnit: func(u *Unit) {
			if u.HasFlag("-optimize-parser") && !u.G.UsesState {
				c.CovAdd("optimized_stateless_sources_inspected", 1)
				for _, w := range []string{"statePool", "cloneState", "restoreState", "Cloner"} {
					if bytes.Contains(u.Gen.Stdout, []byte(w)) {
						c.Report(&Violation{Class: "C10/state-machinery-kept", Summary: fmt.Sprintf("grammar without state blocks, generated with %v, still contains %q", u.Flags, w), Grammar: u.Text, Flags: u.Flags})
					}
				}
			}
			if u.HasFlag("-optimize-parser") && u.G.UsesState {
				c.CovAdd("optimized_stateful_sources", 1)
			}
		},
		Chunk: 50,
	}
	c.DiffCheck(cfg)
}

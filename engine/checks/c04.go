package checks

import (
	"bytes"
	"fmt"
	"go/ast"
	"go/format"
	"go/parser"
	"go/token"
	"math/rand"
	"regexp"
	"strconv"
	"strings"
	"time"

	"verif/engine/batch"
	"verif/engine/gast"
	"verif/engine/mon"
	"verif/engine/ref"
)

var c04Names = [][]string{
	{"A", "A1", "A11", "A111", "B", "B2", "B22"},
	{"Rule", "Rule1", "Rule12", "Rul", "R", "R1", "R12"},
	{"É", "É1", "Añ", "Añ2", "日本", "日本1", "x"},
	{"X_1", "X_", "X", "X1", "X_11", "Y_", "Y"},
	{"on", "onA", "call", "callonA1", "A", "A1", "Parse2"},
	{"key", "Key", "kEy", "KEY", "value", "Value", "é"},
}

func renameRules(g *gast.Grammar, names []string) {
	m := map[string]string{}
	for i, r := range g.Rules {
		m[r.Name] = names[i%len(names)]
		if i >= len(names) {
			m[r.Name] = names[i%len(names)] + "z" + strconv.Itoa(i)
		}
	}
	for _, r := range g.Rules {
		gast.Walk(r.Expr, func(e *gast.Expr) {
			if e.Kind == gast.RuleRef {
				e.Name = m[e.Name]
			}
		})
		r.Name = m[r.Name]
	}
	g.Finalize()
}

type blockSite struct {
	method string
	params []string
}

// inspectBlocks finds, per code-block id, the methods of *current that contain it.
func inspectBlocks(src []byte) (map[int][]blockSite, error) {
	fs := token.NewFileSet()
	f, err := parser.ParseFile(fs, "g.go", src, 0)
	if err != nil {
		return nil, err
	}
	out := map[int][]blockSite{}
	for _, d := range f.Decls {
		fd, ok := d.(*ast.FuncDecl)
		if !ok || fd.Recv == nil || len(fd.Recv.List) != 1 || fd.Body == nil {
			continue
		}
		st, ok := fd.Recv.List[0].Type.(*ast.StarExpr)
		if !ok {
			continue
		}
		if id, ok := st.X.(*ast.Ident); !ok || id.Name != "current" {
			continue
		}
		var params []string
		for _, p := range fd.Type.Params.List {
			for _, n := range p.Names {
				params = append(params, n.Name)
			}
		}
		ast.Inspect(fd.Body, func(n ast.Node) bool {
			ce, ok := n.(*ast.CallExpr)
			if !ok {
				return true
			}
			se, ok := ce.Fun.(*ast.SelectorExpr)
			if !ok {
				return true
			}
			if x, ok := se.X.(*ast.Ident); !ok || x.Name != "mon" || (se.Sel.Name != "Act" && se.Sel.Name != "Pred" && se.Sel.Name != "State") {
				return true
			}
			if len(ce.Args) >= 3 {
				if bl, ok := ce.Args[2].(*ast.BasicLit); ok {
					if id, err := strconv.Atoi(bl.Value); err == nil {
						out[id] = append(out[id], blockSite{fd.Name.Name, params})
					}
				}
			}
			return true
		})
	}
	return out, nil
}

// C04: every accepted grammar yields Go code that compiles, vets and initialises.
func C04(c *Ctx) {
	c.Rule("grammars with adversarial rule names (digit suffixes, prefixes of one another, non-ASCII letters, names resembling the generated on*/call* methods) and labels at every scope boundary, with and without state blocks, each generated under ALL 32 combinations of -optimize-parser, -optimize-grammar, -optimize-basic-latin, -support-left-recursion, -nolint with the receiver name rotating over c, p, cur, self and -cache added to every third set; " +
		"oracle per (grammar, flag set): pigeon exits 0; go/format leaves the file unchanged; go build and go vet of the package succeed; a process importing the packages starts (package init runs) and parses one input per package to the model's value; a Parse call made from a package-level variable initialiser of the user package returns what the same call returns after initialisation; " +
		"by go/parser inspection each code-block id occurs in exactly one method of *current whose parameter list is exactly the model's label scope (checked without -optimize-grammar, which legitimately duplicates blocks); " +
		"plus: every Unicode class name the front-end accepts (enumerated through the hook, all of them) is used in a class, generated with and without -optimize-basic-latin, initialised and matched against a member. " +
		"distinct_nontrivial = distinct (grammar, flag set) whose package compiled and ran")
	rng := rand.New(rand.NewSource(c.Seed*449 + 4))
	flags := []string{"-optimize-parser", "-optimize-grammar", "-optimize-basic-latin", "-support-left-recursion", "-nolint"}
	recv := []string{"c", "p", "cur", "self"}
	var flagSets [][]string
	for m := 0; m < 32; m++ {
		var fs []string
		for b, f := range flags {
			if m&(1<<b) != 0 {
				fs = append(fs, f)
			}
		}
		if r := recv[m%4]; r != "c" {
			fs = append(fs, "-receiver-name", r)
		}
		if m%3 == 1 {
			// -cache only memoizes pigeon's own parse of the grammar text: the property lists it among
			// the flags every combination of which must yield compiling code
			fs = append(fs, "-cache")
		}
		if m%4 == 2 {
			// entrypoint lists a user may well write: the first rule named explicitly, a name twice
			fs = append(fs, "-alternate-entrypoints", []string{"@first,@last", "@last,@last", "@last,@first,@first"}[(m/4)%3])
		}
		flagSets = append(flagSets, fs)
	}
	profs := []*gast.Profile{pegProfile(), stateProfile(), errorProfile()}
	for _, p := range profs {
		p.PLabel = 60
		p.MaxRules = 7
		p.MinRules = 2
	}
	ng := c.N(24, 300)
	gs := c04Strata()
	for i := 0; i < ng; i++ {
		g := gast.Generate(rng, profs[i%3])
		if i%3 == 1 && i%2 == 1 {
			// state blocks that reach the store only through a helper kept in another file of the package:
			// nothing in the grammar file mentions it, the state blocks alone make the parser keep its state machinery
			g.IndirectState, g.StateHelperExtern = true, true
		}
		renameRules(g, c04Names[i%len(c04Names)])
		gs = append(gs, g)
	}
	chunk := 10
	for lo := 0; lo < len(gs); lo += chunk {
		hi := lo + chunk
		if hi > len(gs) {
			hi = len(gs)
		}
		c.c04Chunk(gs[lo:hi], flagSets, rng, false)
		if c.NViol() > 20 {
			break
		}
	}
	// really left-recursive grammars under the 16 flag sets that contain -support-left-recursion
	// (the template variant with the left-recursion runtime is only instantiated for them)
	var lrSets [][]string
	for _, fs := range flagSets {
		if hasFlag(fs, "-support-left-recursion") {
			lrSets = append(lrSets, fs)
		}
	}
	var lgs []*gast.Grammar
	for i := 0; i < c.N(4, 40); i++ {
		lgs = append(lgs, genLR(rng, i%2 == 1))
	}
	for lo := 0; lo < len(lgs); lo += chunk {
		hi := lo + chunk
		if hi > len(lgs) {
			hi = len(lgs)
		}
		c.c04Chunk(lgs[lo:hi], lrSets, rng, true)
	}
	// recovery operators whose recovery expression holds inline code blocks, with labels bound at
	// the level of the operator (guarded and recovery expression share one label scope)
	c.c04Chunk(c04RecoveryStrata(), flagSets, rng, false)
	c.c04Raw(flagSets)
	c.c04Unicode()
	c.runKnownC04()
	c.runKnownC09()
}

func (c *Ctx) c04Chunk(gs []*gast.Grammar, flagSets [][]string, rng *rand.Rand, lr bool) {
	for _, g := range gs {
		g.Finalize()
	}
	bt := c.BuildUnits(gs, flagSets, false, func(int) bool { return lr })
	defer bt.Close()
	vet := bt.Vet()
	var cases []*mon.Case
	inputs := map[int][]byte{}
	for gi, g := range gs {
		inputs[gi] = g.Sentence(rng, g.Rules[0].Name, g.Alphabet(), 6)
	}
	for _, u := range bt.Units {
		c.Eval(1)
		c.CovSet("flag_sets_tried", u.FlagID+"|")
		rep := func(class, msg string, sig []string) {
			c.Report(&Violation{Class: "C04/" + class, Summary: fmt.Sprintf("%s; flags [%s]; grammar %q", msg, u.FlagID, gast.Short(u.G)), Grammar: u.Text, Flags: u.Flags, Sig: sig})
		}
		if u.Skip {
			c.CovAdd("units_skipped_state_optimised_away", 1)
			continue
		}
		if u.Gen.Exit != 0 {
			rep("rejected", fmt.Sprintf("pigeon rejects a valid grammar (exit %d): %s", u.Gen.Exit, firstLine(u.Gen.Stderr)), nil)
			continue
		}
		if f, err := format.Source(u.Gen.Stdout); err != nil {
			rep("not-go", "the emitted file is not valid Go: "+err.Error(), nil)
			continue
		} else if !bytes.Equal(f, u.Gen.Stdout) {
			rep("unformatted", "the emitted file is not gofmt-formatted", nil)
		}
		if !u.OK {
			rep("compile", "the emitted file does not compile: "+u.Fail, c04Sig(u))
			continue
		}
		if v := vet[u.Pkg]; len(v) > 0 {
			rep("vet", "go vet complains: "+strings.Join(v, " | "), nil)
		}
		if !u.HasFlag("-optimize-grammar") {
			sites, err := inspectBlocks(u.Gen.Stdout)
			if err != nil {
				rep("not-go", err.Error(), nil)
				continue
			}
			for _, r := range u.G.Rules {
				gast.Walk(r.Expr, func(e *gast.Expr) {
					if e.Code == nil {
						return
					}
					c.CovAdd("blocks_inspected", 1)
					s := sites[e.Code.ID]
					if len(s) != 1 {
						rep("block-methods", fmt.Sprintf("code block %d of rule %s occurs in %d methods, want exactly 1", e.Code.ID, r.Name, len(s)), nil)
						return
					}
					if strings.Join(s[0].params, ",") != strings.Join(e.Params, ",") {
						rep("block-params", fmt.Sprintf("method %s of code block %d receives (%s), the labels in its scope are (%s)", s[0].method, e.Code.ID, strings.Join(s[0].params, ","), strings.Join(e.Params, ",")), nil)
					}
				})
			}
		}
		cases = append(cases, &mon.Case{ID: u.Pkg, Pkg: u.Pkg, Input: inputs[u.GIdx], MaxExpr: 300000, MaxEvents: 200})
		cases = append(cases, &mon.Case{ID: u.Pkg + "/init", Pkg: u.Pkg, InitProbe: true})
	}
	res := bt.Run(cases, batch.RunOpts{})
	for _, u := range bt.Units {
		if !u.OK {
			continue
		}
		r := res[u.Pkg]
		if r == nil || r.Died != "" {
			d := "no result"
			if r != nil {
				d = r.Died
			}
			c.Report(&Violation{Class: "C04/init", Summary: fmt.Sprintf("the process importing the generated package does not start or dies: %s; flags [%s]", trunc(d), u.FlagID), Grammar: u.Text, Flags: u.Flags})
			continue
		}
		c.Distinct(u.Pkg + u.FlagID + gast.Short(u.G))
		// "package initialisation does not panic", for a user package that parses while its variables are
		// initialised: the call made then returns what the same call returns afterwards
		if at := res[u.Pkg+"/init"]; at != nil && at.Init != nil {
			after := at.Init
			c.CovAdd("init_time_parses_compared", 1)
			if at.ErrNil {
				c.CovAdd("init_time_parses_matching", 1)
			}
			if at.Val != after.Val || at.ErrStr != after.ErrStr || at.Panic != after.Panic {
				c.Report(&Violation{Class: "C04/init-time-parse", Summary: fmt.Sprintf("Parse called from a package-level variable initialiser returns %s / %q / panic %q, the same call after initialisation %s / %q / %q; flags [%s] grammar %q input %q",
					trunc(at.Val), trunc(at.ErrStr), trunc(at.Panic), trunc(after.Val), trunc(after.ErrStr), trunc(after.Panic), u.FlagID, gast.Short(u.G), u.InitInput()), Grammar: u.Text, Flags: u.Flags, Input: u.InitInput()})
			}
		}
		if u.GIdx == 0 && len(u.Flags) >= 4 {
			c.Sample(map[string]any{"grammar": gast.Short(u.G), "flags": u.FlagID, "input": fmt.Sprintf("%q", inputs[u.GIdx]), "value": trunc(r.Val), "compiled": true, "vet": "clean"})
		}
		if !u.HasFlag("-optimize-grammar") && !hasRecovery(u.G) {
			m := ref.Run(u.G, inputs[u.GIdx], ref.Opts{StepCap: 200000, LR: lr})
			if !m.Capped && r.Val != m.ValCanon {
				c.Report(&Violation{Class: "C04/runs-wrong", Summary: fmt.Sprintf("the compiled parser returns %s, the model %s; flags [%s] grammar %q input %q", trunc(r.Val), trunc(m.ValCanon), u.FlagID, gast.Short(u.G), inputs[u.GIdx]), Grammar: u.Text, Flags: u.Flags, Input: inputs[u.GIdx]})
			}
		}
	}
}

// c04Sig recognises known finding F12: the method name on<Rule><index> is ambiguous when one rule
// name is another rule's name followed by digits.
func c04Sig(u *Unit) []string {
	ms := c04ClashRe.FindAllStringSubmatch(u.Fail, -1)
	if len(ms) == 0 {
		// known finding F07 (see C09): a rule inlined by -optimize-grammar brings a label its host
		// already has, and the block's parameter list names it twice
		if u.HasFlag("-optimize-grammar") && strings.Contains(u.Fail, "redeclared in this block") && gast.InlineClash(u.G) {
			return []string{"F07-inline-label-clash"}
		}
		return nil
	}
	// every clashing method name must be explained by two distinct rules a, b with
	// name == a.Name + digits == b.Name + digits
	for _, m := range ms {
		n := 0
		for _, a := range u.G.Rules {
			if strings.HasPrefix(m[1], a.Name) && isDigits(m[1][len(a.Name):]) {
				n++
			}
		}
		if n < 2 {
			return nil
		}
	}
	return []string{"F12-method-name-clash"}
}

var c04ClashRe = regexp.MustCompile(`(?:current|parser)\.(?:call)?on(\S+) (?:already declared|redeclared)`)

func isDigits(s string) bool {
	if s == "" {
		return false
	}
	for _, r := range s {
		if r < '0' || r > '9' {
			return false
		}
	}
	return true
}

func c04Strata() []*gast.Grammar {
	act := func(e *gast.Expr, id int) *gast.Expr { return gast.A(e, id, mon.Spec{}) }
	// rule A: the action is the 11th expression of the rule; rule A1: the action is the 1st
	a := act(gast.L("a"), 1)
	g1 := &gast.Grammar{Rules: []*gast.Rule{
		{Name: "A", Expr: gast.S(gast.L("1"), gast.L("2"), gast.L("3"), gast.L("4"), gast.L("5"), gast.L("6"), gast.L("7"), gast.L("8"), gast.L("9"), a, gast.Ref("A1"))},
		{Name: "A1", Expr: act(gast.L("x"), 2)},
	}}
	// a leaf rule with code predicates referenced from two recursive hosts (inlined twice by -optimize-grammar)
	g2 := &gast.Grammar{Rules: []*gast.Rule{
		{Name: "S", Expr: gast.S(gast.Ref("Let"), gast.Ref("Expr"))},
		{Name: "Let", Expr: gast.S(gast.Ref("P"), gast.L("a"), gast.Opt(gast.Ref("Let")))},
		{Name: "Expr", Expr: gast.S(gast.Ref("P"), gast.L("b"), gast.Opt(gast.Ref("Expr")))},
		{Name: "P", Expr: gast.S(gast.AndC(3, mon.Spec{}), gast.NotC(4, mon.Spec{B: 1}), gast.L("x"))},
	}}
	// rule names that differ only in case, each with a code block at the same expression index
	g3 := &gast.Grammar{Rules: []*gast.Rule{
		{Name: "pair", Expr: act(gast.S(gast.Ref("key"), gast.L("="), gast.Ref("Key"), gast.Opt(gast.Ref("KEY"))), 1)},
		{Name: "key", Expr: act(gast.Plus(gast.Cl(gast.Chars("ab"))), 2)},
		{Name: "Key", Expr: act(gast.Plus(gast.Cl(gast.Chars("xy"))), 3)},
		{Name: "KEY", Expr: act(gast.L("!"), 4)},
	}}
	// a leaf rule that is one character class, referenced several times from one rule, one of the
	// copies standing in a choice of one-rune literals (the optimizer merges that copy in place); the
	// same with Unicode classes and with a caseless class
	az := func() *gast.Expr { return gast.Cl(&gast.ClassSpec{Ranges: [][2]rune{{'a', 'z'}}}) }
	g4 := &gast.Grammar{Rules: []*gast.Rule{
		{Name: "Ident", Expr: act(gast.S(gast.Ref("Letter"), gast.Star(gast.C(gast.Ref("Letter"), gast.L("_"), gast.Ref("Digit"))), gast.NotE(gast.Ref("Letter"))), 1)},
		{Name: "Letter", Expr: az()},
		{Name: "Digit", Expr: gast.Cl(&gast.ClassSpec{Ranges: [][2]rune{{'0', '9'}}})},
	}}
	g5 := &gast.Grammar{Rules: []*gast.Rule{
		{Name: "S", Expr: gast.S(gast.Star(gast.C(gast.S(gast.Ref("U"), gast.C(gast.Ref("U"), gast.L("-"), gast.Ref("K"))), gast.S(gast.Ref("K"), gast.Ref("K")), gast.C(gast.L("+"), gast.Ref("K"), gast.Ref("U")))), gast.Star(gast.Dot()))},
		{Name: "U", Expr: gast.Cl(&gast.ClassSpec{UClasses: []string{"Lu"}, Chars: []rune("_")})},
		{Name: "K", Expr: gast.Cl(&gast.ClassSpec{Chars: []rune("kq"), IgnoreCase: true})},
	}}
	return []*gast.Grammar{g1, g2, g3, g4, g5}
}

// c04Raw: hand-written texts. (a) well-typed code blocks that use Go's predeclared identifiers the
// way user code may (the runtime shares the package with them); (b) spellings the front-end may or
// may not accept - if it accepts one, the result must build, vet and initialise like any other.
func (c *Ctx) c04Raw(flagSets [][]string) {
	builtins := "{\npackage %PKG%\n\ntype pair struct{ lo, hi float64 }\n}\n\n" +
		"S <- a:A b:B* !. {\n\tm := map[string]float64{\"k\": 1.5}\n\tlo := min(1.5, 2.5, m[\"k\"])\n\thi := max(\"a\", \"b\", \"c\")\n\tclear(m)\n\txs := append([]any{}, a, b)\n\tys := make([]any, len(xs), cap(xs)+1)\n\tcopy(ys, xs)\n\tdelete(m, \"k\")\n\tp := new(pair)\n\tp.lo, p.hi = lo, real(complex(2, 3))\n\tprintln := len(hi)\n\t_ = println\n\treturn len(ys), nil\n}\n" +
		"A <- [a-c]+ &{ return min(len(c.text), 3) >= 0 && max(1, 2) == 2, nil }\n" +
		"B <- ',' A #{ c.state[\"n\"] = min(2, 3); return nil }\n"
	miscased := "{\npackage %PKG%\n}\nS <- [\\p{greek}]* [\\p{old_italic}\\p{LATIN}]? [\\p{lu}] / 'x'\n"
	type rawCase struct {
		name, text string
		mayReject  bool
		state      bool
	}
	// blocks whose last statement is a terminating statement other than a plain return
	terminating := "{\npackage %PKG%\n}\n" +
		"S <- a:A b:B* C? !. {\n\tif len(b.([]any)) > 0 {\n\t\treturn 1, nil\n\t} else {\n\t\treturn 0, nil\n\t}\n}\n" +
		"A <- [a-c]+ &{\n\tswitch {\n\tcase len(c.text) > 0:\n\t\treturn true, nil\n\tdefault:\n\t\treturn true, nil\n\t}\n}\n" +
		"B <- ',' A #{\n\tif c.pos.offset > 0 {\n\t\tc.state[\"n\"] = 1\n\t\treturn nil\n\t} else {\n\t\treturn nil\n\t}\n}\n" +
		"C <- 'z' #{\n\tfor {\n\t\treturn nil\n\t}\n} !{\n\tpanic(\"never reached\")\n}\n"
	// classes named by one-letter categories and by long names, in both orders
	uniMix1 := "{\npackage %PKG%\n}\nS <- [\\p{Lu}\\p{Greek}]* [\\pL\\pN_,]* / [\\p{Nd}] [\\pZ]\n"
	uniMix2 := "{\npackage %PKG%\n}\nS <- [\\pL,]+ [\\pN]* / [\\p{Lu}\\pZ] [\\p{Nd}a-c]\n"
	for _, rc := range []rawCase{{"predeclared identifiers in code blocks", builtins, false, true}, {"Unicode class names in another letter case", miscased, true, false},
		{"blocks that end in a terminating statement other than return", terminating, false, true}, {"one-letter categories after long class names", uniMix1, false, false}, {"long class names after one-letter categories", uniMix2, false, false}} {
		g := &gast.Grammar{Raw: rc.text, Rules: []*gast.Rule{{Name: "S", Expr: gast.Star(gast.Dot())}}}
		g.UsesState = rc.state
		var fs [][]string
		for i, f := range flagSets {
			if i%3 == 0 && !hasFlag(f, "-receiver-name") {
				fs = append(fs, f)
			}
		}
		bt := c.BuildUnits([]*gast.Grammar{g}, fs, false, nil)
		vet := bt.Vet()
		var cases []*mon.Case
		for _, u := range bt.Units {
			c.Eval(1)
			if u.Gen.Exit != 0 {
				if !rc.mayReject {
					c.Report(&Violation{Class: "C04/rejected", Summary: fmt.Sprintf("pigeon rejects a valid grammar (%s; exit %d): %s; flags [%s]", rc.name, u.Gen.Exit, firstLine(u.Gen.Stderr), u.FlagID), Grammar: u.Text, Flags: u.Flags})
				} else {
					c.CovAdd("raw_texts_rejected_by_the_front_end", 1)
				}
				continue
			}
			if !u.OK {
				c.Report(&Violation{Class: "C04/compile", Summary: fmt.Sprintf("the emitted file does not compile (%s): %s; flags [%s]", rc.name, u.Fail, u.FlagID), Grammar: u.Text, Flags: u.Flags})
				continue
			}
			if v := vet[u.Pkg]; len(v) > 0 {
				c.Report(&Violation{Class: "C04/vet", Summary: fmt.Sprintf("go vet complains (%s): %s; flags [%s]", rc.name, strings.Join(v, " | "), u.FlagID), Grammar: u.Text, Flags: u.Flags})
			}
			cases = append(cases, &mon.Case{ID: u.Pkg, Pkg: u.Pkg, Input: []byte("ab,c"), MaxExpr: 100000})
		}
		res := bt.Run(cases, batch.RunOpts{})
		for _, cs := range cases {
			r := res[cs.ID]
			if r == nil || r.Died != "" {
				d := "no result"
				if r != nil {
					d = r.Died
				}
				c.Report(&Violation{Class: "C04/init", Summary: fmt.Sprintf("the process importing the generated package (%s) does not start or dies: %s", rc.name, trunc(d)), Grammar: rc.text})
				continue
			}
			c.Distinct("raw/" + rc.name + cs.ID)
		}
		bt.Close()
	}
}

// hasRecovery: the labels a block inside a recovery expression sees at run time are those of the
// throw site; only the static side (methods, parameters, compile, vet) is decided here for them.
func hasRecovery(g *gast.Grammar) bool {
	has := false
	for _, r := range g.Rules {
		gast.Walk(r.Expr, func(e *gast.Expr) {
			if e.Kind == gast.Recovery {
				has = true
			}
		})
	}
	return has
}

func c04RecoveryStrata() []*gast.Grammar {
	act := func(e *gast.Expr, id int) *gast.Expr { return gast.A(e, id, mon.Spec{}) }
	word := func() *gast.Expr { return gast.Plus(gast.Cl(gast.Chars("ab"))) }
	g1 := &gast.Grammar{Rules: []*gast.Rule{
		{Name: "Item", Expr: act(gast.Rec(gast.S(gast.Lab("key", word()), gast.L("="), gast.Lab("val", gast.C(word(), gast.Thr("L1")))),
			gast.S(gast.Lab("skipped", gast.Star(gast.Cl(&gast.ClassSpec{Chars: []rune(";"), Inverted: true}))), gast.AndC(2, mon.Spec{}), act(gast.L(""), 3)), "L1"), 1)},
	}}
	g2 := &gast.Grammar{Rules: []*gast.Rule{
		{Name: "S", Expr: gast.Star(gast.C(gast.Ref("P"), gast.Dot()))},
		{Name: "P", Expr: gast.Rec(gast.Rec(gast.S(gast.Lab("a", gast.L("<")), gast.Lab("b", gast.C(word(), gast.Thr("L2"), gast.Thr("L1"))), act(gast.L(">"), 1)),
			act(gast.Lab("d", gast.L("?")), 2), "L1"), gast.S(gast.St(3, mon.Spec{S: 1}), gast.Lab("e", gast.Opt(gast.L("!"))), act(gast.L(""), 4)), "L2")},
	}}
	// a throw but no recovery operator anywhere in the grammar
	g3 := &gast.Grammar{Rules: []*gast.Rule{
		{Name: "S", Expr: gast.S(gast.Star(gast.Ref("T")), gast.Star(gast.Dot()))},
		{Name: "T", Expr: gast.C(act(gast.Cl(gast.Chars("ab")), 1), gast.S(gast.L("!"), gast.Thr("L1")))},
	}}
	return []*gast.Grammar{g1, g2, g3}
}

func (c *Ctx) runKnownC04() {
	g := c04Strata()[0]
	g.Finalize()
	bt := c.BuildUnits([]*gast.Grammar{g}, [][]string{{}}, false, nil)
	defer bt.Close()
	c.MarkKnownStillFails("F12-method-name-clash", !bt.Units[0].OK && len(c04Sig(bt.Units[0])) > 0)
	c.Eval(1)
}

// c04Unicode: every class name the front-end accepts resolves at run time.
func (c *Ctx) c04Unicode() {
	hook, err := c.W.Hooked()
	if err != nil {
		c.Broken(err.Error())
		return
	}
	res := c.W.RunPigeon(hook, nil, 30*time.Second, []string{"PIGEON_VERIF_MODE=uclasses"})
	names := strings.Fields(string(res.Stdout))
	if res.Exit != 0 || len(names) < 100 {
		c.Broken("cannot enumerate the accepted Unicode class names through the hook")
		return
	}
	var gs []*gast.Grammar
	per := 50
	for lo := 0; lo < len(names); lo += per {
		hi := lo + per
		if hi > len(names) {
			hi = len(names)
		}
		g := &gast.Grammar{}
		for i, n := range names[lo:hi] {
			g.Rules = append(g.Rules, &gast.Rule{Name: fmt.Sprintf("U%d", lo+i), Expr: gast.S(gast.Cl(&gast.ClassSpec{UClasses: []string{n}}), gast.NotE(gast.Dot()))})
		}
		g.Finalize()
		gs = append(gs, g)
	}
	bt := c.BuildUnits(gs, [][]string{{}, {"-optimize-basic-latin"}, {"-optimize-parser", "-optimize-basic-latin"}}, false, nil)
	defer bt.Close()
	var cases []*mon.Case
	type exp struct {
		name string
		want bool
	}
	exps := map[string]exp{}
	for _, u := range bt.Units {
		if !u.OK {
			c.Report(&Violation{Class: "C04/unicode-class-build", Summary: "a grammar using accepted Unicode class names does not build: " + u.Fail, Grammar: u.Text, Flags: u.Flags})
			continue
		}
		for _, r := range u.G.Rules {
			cl := r.Expr.Subs[0].Class
			name := cl.UClasses[0]
			t := gast.UnicodeTable(name)
			member := rune(0)
			if t != nil {
				if len(t.R16) > 0 {
					member = rune(t.R16[0].Lo)
				} else if len(t.R32) > 0 {
					member = rune(t.R32[0].Lo)
				}
			}
			for k, in := range [][]byte{[]byte(string(member)), []byte("\U000EFFFF")} {
				id := fmt.Sprintf("%s/%s/%d", u.Pkg, r.Name, k)
				cases = append(cases, &mon.Case{ID: id, Pkg: u.Pkg, Input: in, Entry: r.Name, NoTrace: true})
				rr, _ := utf8Rune(in)
				exps[id] = exp{name, ref.ClassMatch(cl, rr)}
			}
		}
	}
	res2 := bt.Run(cases, batch.RunOpts{})
	seen := map[string]bool{}
	for id, e := range exps {
		r := res2[id]
		c.Eval(1)
		if r == nil || r.Died != "" {
			c.Report(&Violation{Class: "C04/unicode-class-init", Summary: "a parser using Unicode class " + e.name + " dies at start or during the parse", Extra: map[string]any{"class": e.name}})
			continue
		}
		seen[e.name] = true
		if r.ErrNil != e.want {
			c.Report(&Violation{Class: "C04/unicode-class-match", Summary: fmt.Sprintf("class \\p{%s}: match=%t, Go's unicode table says %t", e.name, r.ErrNil, e.want)})
		}
	}
	c.Cov("unicode_class_names_accepted", len(names))
	c.Cov("unicode_class_names_initialised_and_matched", len(seen))
	if len(seen) == len(names) {
		c.Exhaustive()
	}
	for n := range seen {
		c.Distinct("uclass:" + n)
	}
}

func utf8Rune(b []byte) (rune, int) {
	for _, r := range string(b) {
		return r, 0
	}
	return 0, 0
}

package checks

import (
	"fmt"
	"math/rand"
	"strings"

	"verif/engine/gast"
	"verif/engine/mon"
	"verif/engine/ref"
)

func pick(r *rand.Rand, xs ...int) int { return xs[r.Intn(len(xs))] }

// C02: code blocks observe the true match context.
func C02(c *Ctx) {
	c.Rule("label-heavy random grammars with action, predicate and state blocks at every nesting position, inputs rich in newlines and multi-byte runes; " +
		"oracle = the model's full code-block trace (which blocks ran, in which order, with which text, pos and label values; also on alternatives abandoned later) " +
		"plus, for every 4th input, the position-purity monitor over the parser's own Debug trace ((line,col) printed anywhere == posfn(offset)). " +
		"distinct_nontrivial = distinct (grammar, input, entrypoint) with >=1 backtrack and >=3 block events")
	c.Assume("position convention: col counts runes since the last newline, a newline itself sits at (line+1, col 0); EOF is one column past the last rune")
	p := pegProfile()
	p.PLabel = 70
	p.LabelPool = 3
	p.W[gast.Action] = 16
	p.W[gast.AndCode] = 6
	p.W[gast.NotCode] = 5
	p.W[gast.StateCode] = 5
	p.Alphabets = [][]rune{[]rune("ab\n"), []rune("aé\n"), []rune("a世\n😀"), []rune("ab"), []rune("\n\nxy")}
	p.ActSpec = func(r *rand.Rand) mon.Spec { return mon.Spec{R: pick(r, 0, 0, 0, 1, 2, 3, 4)} }
	p.PredSpec = func(r *rand.Rand) mon.Spec { return mon.Spec{B: pick(r, 0, 0, 1, 4, 4)} }
	p.StateSpec = func(r *rand.Rand) mon.Spec { return mon.Spec{S: pick(r, 1, 2, 3)} }
	cfg := &MCConfig{
		Profile: p, Grammars: append(c02Strata(), c02RepScope()...), NGrammars: c.N(200, 2000),
		FlagSets:  [][]string{{}, {"-optimize-parser"}, {"-receiver-name", "cur"}},
		InputsPer: c.N(90, 200), ExhaustLimit: c.N(150, 800), ExhaustLen: 6,
		OptSets:     []OptSet{{Name: "default"}, {Name: "memoize", Memo: true}},
		Entrypoints: true, DebugEvery: 4,
		Compare:    CmpTrace | CmpVal | CmpEnd | CmpOK,
		NonTrivial: func(m *ref.Result) bool { return m.Backtracks >= 1 && len(m.Trace) >= 3 },
		StalePS:    "F02-stale-pred-pos",
		ExtraInputs: func(g *gast.Grammar, r *rand.Rand) [][]byte {
			// other line-break conventions in the input: a carriage return is an ordinary rune (only the
			// newline ends a line), alone, before a newline, and next to the line/paragraph separators
			var out [][]byte
			alpha := g.Alphabet()
			for i := 0; i < 10; i++ {
				s := g.Sentence(r, g.Rules[0].Name, alpha, 6)
				cut := r.Intn(len(s) + 1)
				ins := []string{"\r", "\r\n", "\r\r", "\u2028", "\v\f", "\u0085"}[i%6]
				out = append(out, append(append(append([]byte{}, s[:cut]...), ins...), s[cut:]...))
			}
			return out
		},
	}
	c.runKnownF02()
	c.ModelCheck(cfg)
	c.c02RawBlocks()
	// deep nesting: label scopes and values several hundred levels deep (every internal stack of the
	// runtime grows past whatever it was sized for while a labelled expression is being evaluated)
	dcfg := *cfg
	dcfg.Grammars = c02DeepStrata()
	dcfg.NGrammars = 0
	dcfg.InputsPer, dcfg.ExhaustLimit = 0, 0
	dcfg.Entrypoints = false
	dcfg.DebugEvery = 0
	dcfg.ExtraInputs = func(g *gast.Grammar, r *rand.Rand) [][]byte {
		var out [][]byte
		for _, d := range []int{1, 30, 70, 100, 130, 200, 257, 300, 420, 600} {
			out = append(out, []byte(strings.Repeat("[", d)+"x"+strings.Repeat("]", d)), []byte(strings.Repeat("(", d)+"1"+strings.Repeat(")", d)+"+2"),
				[]byte(strings.Repeat("<", d)+"a"+strings.Repeat(">", d)), []byte(strings.Repeat("[", d)+"x"+strings.Repeat("]", d-1)), []byte(strings.Repeat("1+", d)+"1"))
		}
		return out
	}
	c.ModelCheck(&dcfg)
	// malformed UTF-8 in the input: positions stay a pure function of input and byte offset, every
	// byte that is not part of a valid sequence counting as one rune (lead bytes followed by
	// continuation bytes that do not complete a rune, surrogates, overlongs, stray bytes)
	icfg := *cfg
	icfg.Grammars = nil
	icfg.NGrammars = c.N(50, 500)
	icfg.InputsPer, icfg.ExhaustLimit = c.N(60, 150), 0
	icfg.Invalid = true
	icfg.Entrypoints = false
	icfg.OptSets = []OptSet{{Name: "allow", AllowInvalid: true}, {Name: "default"}}
	icfg.ExtraInputs = func(g *gast.Grammar, r *rand.Rand) [][]byte {
		var out [][]byte
		alpha := g.Alphabet()
		for i := 0; i < 12; i++ {
			s := g.Sentence(r, g.Rules[0].Name, alpha, 6)
			cut := r.Intn(len(s) + 1)
			bad := gast.InvalidSeqs[r.Intn(len(gast.InvalidSeqs))]
			out = append(out, append(append(append([]byte{}, s[:cut]...), bad...), s[cut:]...))
		}
		return out
	}
	c.ModelCheck(&icfg)
}

// c02RepScope: an unlabelled repetition standing directly in a sequence whose operand is an action
// expression (or a group) that binds a label of the same name as one bound earlier in the sequence; a
// block of the enclosing sequence reads the label afterwards.
func c02RepScope() []*gast.Grammar {
	mk := func(rules ...*gast.Rule) *gast.Grammar { return &gast.Grammar{Rules: rules} }
	r := func(n string, e *gast.Expr) *gast.Rule { return &gast.Rule{Name: n, Expr: e} }
	return []*gast.Grammar{
		mk(r("S", gast.A(gast.S(gast.Lab("x", gast.Ref("H")), gast.Star(gast.A(gast.S(gast.L(","), gast.Lab("x", gast.Ref("I"))), 2, mon.Spec{})), gast.NotE(gast.Dot())), 1, mon.Spec{})),
			r("H", gast.A(gast.Plus(gast.Cl(gast.Chars("ab"))), 3, mon.Spec{R: 2})), r("I", gast.A(gast.Plus(gast.Cl(gast.Chars("cd"))), 4, mon.Spec{R: 2}))),
		mk(r("S", gast.A(gast.S(gast.Lab("x", gast.L("h")), gast.Lab("y", gast.L("k")), gast.Plus(gast.A(gast.S(gast.L(";"), gast.Lab("y", gast.Cl(gast.Chars("ab"))), gast.Lab("x", gast.Opt(gast.L("!")))), 2, mon.Spec{R: 3})), gast.AndC(5, mon.Spec{}), gast.Star(gast.Dot())), 1, mon.Spec{}))),
	}
}

func c02DeepStrata() []*gast.Grammar {
	mk := func(rules ...*gast.Rule) *gast.Grammar { return &gast.Grammar{Rules: rules} }
	r := func(n string, e *gast.Expr) *gast.Rule { return &gast.Rule{Name: n, Expr: e} }
	act := func(e *gast.Expr, id int) *gast.Expr { return gast.A(e, id, mon.Spec{}) }
	dig := func() *gast.Expr { return gast.Cl(&gast.ClassSpec{Ranges: [][2]rune{{'0', '9'}}}) }
	return []*gast.Grammar{
		// the first (and only) label of each scope is bound after a deep recursion below it
		mk(r("L", gast.C(act(gast.S(gast.L("["), gast.Lab("inner", gast.Ref("L")), gast.L("]")), 1), act(gast.Lab("x", gast.L("x")), 2)))),
		mk(r("E", gast.C(act(gast.S(gast.Lab("a", gast.Ref("T")), gast.L("+"), gast.Lab("b", gast.Ref("E"))), 1), act(gast.Lab("a", gast.Ref("T")), 2))),
			r("T", gast.C(act(gast.S(gast.L("("), gast.Lab("e", gast.Ref("E")), gast.L(")")), 3), act(gast.Lab("n", dig()), 4)))),
		mk(r("S", act(gast.Lab("items", gast.Star(act(gast.Lab("i", gast.Ref("Item")), 1))), 2)), r("Item", gast.C(act(gast.S(gast.L("<"), gast.Lab("c", gast.Ref("S")), gast.L(">")), 3), gast.L("a")))),
		// a predicate reading the label in the middle of the scope, and a second label after it
		mk(r("L", gast.C(act(gast.S(gast.L("["), gast.Lab("inner", gast.Ref("L")), gast.AndC(3, mon.Spec{}), gast.Lab("close", gast.L("]"))), 1), act(gast.Lab("x", gast.L("x")), 2)))),
	}
}

// c02RawBlocks: code blocks with byte-identical text in different rules whose labels are bound in a
// different order (the monitor's own blocks always differ by their id). Each must receive its own
// labels by name.
func (c *Ctx) c02RawBlocks() {
	const body = `{ return "k=" + flat(k) + " v=" + flat(v) + " @" + fmt.Sprint(c.pos.offset) + " " + string(c.text), nil }`
	raw := "{\npackage %PKG%\n\nimport \"fmt\"\n\nfunc flat(v any) string {\n\tswitch x := v.(type) {\n\tcase []byte:\n\t\treturn string(x)\n\tcase []any:\n\t\ts := \"\"\n\t\tfor _, e := range x {\n\t\t\ts += flat(e)\n\t\t}\n\t\treturn s\n\tcase string:\n\t\treturn x\n\t}\n\treturn fmt.Sprint(v)\n}\n}\n\n" +
		"S <- ( A / B / D )* !.\n" +
		"A <- k:[a-c]+ '=' v:[0-9]+ ';' " + body + "\n" +
		"B <- v:[0-9]+ '>' k:[a-c]+ ';' " + body + "\n" +
		"D <- '(' v:[0-9]+ ')' k:( [a-c] )? ';' " + body + "\n"
	g := &gast.Grammar{Raw: raw, Rules: []*gast.Rule{{Name: "S", Expr: gast.Star(gast.Dot())}}}
	g.Finalize()
	bt := c.BuildUnits([]*gast.Grammar{g}, [][]string{{}, {"-optimize-parser"}, {"-optimize-grammar"}}, false, nil)
	defer bt.Close()
	want := map[string]string{
		"ab=12;":        `[s"k=ab v=12 @0 ab=12;"]`,
		"34>c;":         `[s"k=c v=34 @0 34>c;"]`,
		"ab=12;34>c;":   `[s"k=ab v=12 @0 ab=12;",s"k=c v=34 @6 34>c;"]`,
		"(7)b;1>a;c=2;": `[s"k=b v=7 @0 (7)b;",s"k=a v=1 @5 1>a;",s"k=c v=2 @9 c=2;"]`,
	}
	for _, u := range bt.Units {
		if !u.OK {
			c.Report(&Violation{Class: "C02/raw-blocks-build", Summary: fmt.Sprintf("a grammar with byte-identical code blocks in three rules does not build with flags [%s]: %s", u.FlagID, u.Fail), Grammar: u.Text, Flags: u.Flags})
			continue
		}
		var cs []*mon.Case
		for in := range want {
			cs = append(cs, &mon.Case{ID: u.Pkg + "/" + in, Pkg: u.Pkg, Input: []byte(in)})
		}
		res := bt.Run(cs, runOptsDefault)
		for in, w := range want {
			r := res[u.Pkg+"/"+in]
			c.Eval(1)
			if r == nil {
				c.Inconclusive("no_result")
				continue
			}
			// the value is [[results...], nil] for ( ... )* !.
			if !strings.Contains(r.Val, w[1:len(w)-1]) || !r.ErrNil {
				c.Report(&Violation{Class: "C02/identical-blocks", Summary: fmt.Sprintf("code blocks with identical text but labels bound in another order: on input %q the parser (flags [%s]) returns %s (err %q), want the elements %s", in, u.FlagID, trunc(r.Val), trunc(r.ErrStr), w),
					Grammar: u.Text, Flags: u.Flags, Input: []byte(in)})
			} else {
				c.Distinct("raw/" + u.FlagID + in)
			}
		}
	}
}

// scopeStrata: for every construct that opens a label scope, a grammar in which the scope re-uses
// the name of an outer label (binding it to a different value, also on an attempt that fails
// afterwards) and blocks of the outer scope look at the label afterwards.
func scopeStrata() []*gast.Grammar {
	var out []*gast.Grammar
	w := func() *gast.Expr { return gast.A(gast.Plus(gast.Cl(gast.Chars("ab"))), 9, mon.Spec{R: 2}) }
	inner := func(id int) *gast.Expr {
		return gast.S(gast.L(","), gast.Lab("a", gast.Ref("W")), gast.AndC(id, mon.Spec{}), gast.L(";"))
	}
	openers := map[string]func(e *gast.Expr) *gast.Expr{
		"opt": gast.Opt, "star": gast.Star, "plus": func(e *gast.Expr) *gast.Expr { return gast.Opt(gast.Plus(e)) },
		"and": func(e *gast.Expr) *gast.Expr { return gast.Opt(gast.AndE(e)) }, "not": func(e *gast.Expr) *gast.Expr { return gast.Opt(gast.NotE(e)) },
		"choice": func(e *gast.Expr) *gast.Expr { return gast.C(e, gast.L("!"), gast.L("")) },
		"label":  func(e *gast.Expr) *gast.Expr { return gast.Opt(gast.Lab("b", e)) },
		"recovery": func(e *gast.Expr) *gast.Expr {
			return gast.Opt(gast.Rec(e, gast.L("?"), "L1"))
		},
	}
	for _, name := range []string{"opt", "star", "plus", "and", "not", "choice", "label", "recovery"} {
		g := &gast.Grammar{Rules: []*gast.Rule{
			{Name: "S", Expr: gast.A(gast.S(gast.Lab("a", gast.Ref("W")), openers[name](inner(2)), gast.AndC(3, mon.Spec{}), gast.Star(gast.Dot())), 1, mon.Spec{})},
			{Name: "W", Expr: w()},
		}}
		out = append(out, g)
	}
	return out
}

func c02Strata() []*gast.Grammar {
	mk := func(rules ...*gast.Rule) *gast.Grammar { return &gast.Grammar{Rules: rules} }
	r := func(n string, e *gast.Expr) *gast.Rule { return &gast.Rule{Name: n, Expr: e} }
	return append(append(scopeStrata(), c06Strata()[1:4]...), []*gast.Grammar{
		// predicate after an action: must see the current position and empty text
		mk(r("S", gast.S(gast.Ref("A"), gast.L("b"), gast.AndC(2, mon.Spec{}), gast.Star(gast.Dot()))),
			r("A", gast.A(gast.Plus(gast.L("a")), 1, mon.Spec{}))),
		// the same label name nested directly inside a labelled expression (no scope opener between)
		mk(r("S", gast.A(gast.S(gast.Lab("a", gast.Ref("W")), gast.L(":"), gast.Lab("b", gast.A(gast.S(gast.L("<"), gast.Lab("a", gast.Ref("W")), gast.L(">")), 2, mon.Spec{})),
			gast.Lab("d", gast.Lab("a", gast.Opt(gast.L("!"))))), 1, mon.Spec{})),
			r("W", gast.A(gast.Plus(gast.Cl(gast.Chars("ab"))), 3, mon.Spec{R: 2}))),
		// recursion re-uses label names
		mk(r("S", gast.A(gast.S(gast.Lab("a", gast.L("(")), gast.Lab("b", gast.Opt(gast.Ref("S"))), gast.Lab("d", gast.L(")"))), 1, mon.Spec{}))),
		// action inside an alternative that is abandoned later
		mk(r("S", gast.C(gast.S(gast.A(gast.Lab("a", gast.Plus(gast.Cl(gast.Chars("a\n")))), 1, mon.Spec{}), gast.L("x")),
			gast.A(gast.Lab("b", gast.Star(gast.Dot())), 2, mon.Spec{})))),
		// a handler in an outer rule binds a label that also exists in the rule that throws; the throw is
		// reached through label-free constructs
		mk(r("S", gast.Star(gast.S(gast.Ref("Line"), gast.Opt(gast.L("\n"))))),
			r("Line", gast.Rec(gast.A(gast.S(gast.Lab("n", gast.Ref("W")), gast.L("="), gast.Lab("v", gast.Ref("Value"))), 3, mon.Spec{}), gast.A(gast.Lab("d", gast.Star(gast.Cl(&gast.ClassSpec{Chars: []rune("\n"), Inverted: true}))), 4, mon.Spec{}), "L1")),
			r("Value", gast.A(gast.S(gast.Lab("d", gast.Plus(gast.Cl(gast.Chars("01")))), gast.Lab("e", gast.C(gast.L(";"), gast.Opt(gast.S(gast.NotE(gast.L("\n")), gast.Thr("L1")))))), 1, mon.Spec{})),
			r("W", gast.A(gast.Plus(gast.Cl(gast.Chars("ab"))), 5, mon.Spec{R: 2}))),
		// a block written directly in a recovery expression, using a label bound in the guarded sequence
		// by the sequence that also holds the throw
		mk(r("S", gast.Star(gast.C(gast.Ref("Good"), gast.Ref("Bad"), gast.A(gast.Dot(), 9, mon.Spec{})))),
			r("Good", gast.A(gast.S(gast.Lab("a", gast.Ref("W")), gast.L("="), gast.Lab("b", gast.Plus(gast.Cl(gast.Chars("01")))), gast.L(";")), 1, mon.Spec{})),
			r("Bad", gast.Rec(gast.S(gast.Lab("a", gast.Ref("W")), gast.L("="), gast.Thr("L1")), gast.A(gast.S(gast.Lab("d", gast.Star(gast.Cl(&gast.ClassSpec{Chars: []rune(";"), Inverted: true}))), gast.L(";")), 2, mon.Spec{}), "L1")),
			r("W", gast.A(gast.Plus(gast.Cl(gast.Chars("ab"))), 3, mon.Spec{R: 2}))),
		// an input that starts with a byte order mark: it is a rune like any other for line/col
		mk(r("S", gast.S(gast.Opt(gast.L("\ufeff")), gast.Star(gast.C(gast.A(gast.Plus(gast.Cl(gast.Chars("ab"))), 1, mon.Spec{}), gast.A(gast.L("\n"), 2, mon.Spec{}), gast.A(gast.L("\ufeff"), 3, mon.Spec{}))), gast.AndC(4, mon.Spec{}), gast.Star(gast.Dot()))),
			r("T", gast.A(gast.S(gast.Dot(), gast.Lab("a", gast.Star(gast.Cl(gast.Chars("ab\ufeff"))))), 5, mon.Spec{}))),
		// labels on predicates are nil, whatever an earlier scope at the same depth bound under that name
		mk(r("S", gast.Star(gast.S(gast.Ref("I"), gast.L(";")))),
			r("I", gast.C(gast.A(gast.S(gast.Lab("m", gast.L("#")), gast.Lab("w", gast.Ref("W"))), 1, mon.Spec{}), gast.A(gast.S(gast.Lab("m", gast.NotE(gast.L("#"))), gast.Lab("w", gast.Ref("W"))), 2, mon.Spec{}),
				gast.A(gast.S(gast.Lab("w", gast.AndE(gast.L("?"))), gast.Lab("m", gast.NotC(4, mon.Spec{})), gast.L("?")), 3, mon.Spec{}))),
			r("W", gast.A(gast.Plus(gast.Cl(gast.Chars("ab"))), 5, mon.Spec{R: 2}))),
		// a block re-reached (a cache hit under Memoize) whose match spans a newline followed by
		// multi-byte runes; the blocks after it must see the right line and column
		mk(r("S", gast.C(gast.S(gast.Lab("a", gast.Ref("B")), gast.L("!"), gast.A(gast.Star(gast.Dot()), 1, mon.Spec{})), gast.S(gast.Lab("a", gast.Ref("B")), gast.L("?"), gast.Lab("b", gast.Ref("T")), gast.A(gast.Star(gast.Dot()), 2, mon.Spec{})))),
			r("B", gast.A(gast.S(gast.Plus(gast.Cl(gast.Chars("xé"))), gast.L("\n"), gast.Star(gast.Cl(gast.Chars("é世")))), 3, mon.Spec{})),
			r("T", gast.A(gast.Plus(gast.Cl(gast.Chars("zé\n"))), 4, mon.Spec{}))),
		// a label bound inside a parenthesised action that is an item of a sequence belongs to that
		// sequence; the inner action is reached a second time at the same offset from another start
		mk(r("S", gast.C(gast.A(gast.S(gast.Lab("a", gast.Ref("A")), gast.L("z")), 1, mon.Spec{}), gast.A(gast.S(gast.L("x"), gast.Lab("a", gast.Ref("A"))), 2, mon.Spec{}), gast.Star(gast.Dot()))),
			r("A", gast.A(gast.S(gast.Star(gast.L("x")), gast.A(gast.Lab("b", gast.L("y")), 3, mon.Spec{}), gast.AndC(5, mon.Spec{})), 4, mon.Spec{R: 3}))),
		// blocks nested in a syntactic predicate that read labels bound to e+, e* and a parenthesised
		// sequence (the values are needed although the predicate throws its own value away)
		mk(r("S", gast.Star(gast.C(gast.S(gast.AndE(gast.A(gast.S(gast.Lab("a", gast.Plus(gast.Cl(gast.Chars("ab")))), gast.Lab("b", gast.S(gast.L("x"), gast.Opt(gast.L("y")))), gast.AndC(4, mon.Spec{})), 1, mon.Spec{})), gast.Dot()),
			gast.S(gast.NotE(gast.S(gast.A(gast.Lab("a", gast.Star(gast.L("x"))), 2, mon.Spec{}), gast.L("!"))), gast.Dot()))))),
		// predicates whose block returns an error next to its boolean: the boolean alone decides
		mk(r("S", gast.Star(gast.C(gast.A(gast.S(gast.AndC(4, mon.Spec{E: 1}), gast.L("a")), 1, mon.Spec{}), gast.A(gast.S(gast.NotC(5, mon.Spec{E: 1}), gast.L("b")), 2, mon.Spec{}),
			gast.A(gast.S(gast.NotC(6, mon.Spec{E: 1, B: 1}), gast.AndC(7, mon.Spec{E: 3, B: 1}), gast.L("c")), 8, mon.Spec{}), gast.A(gast.Dot(), 3, mon.Spec{}))))),
		// a label of the enclosing sequence is used again inside the last (and inside a middle)
		// alternative of a choice that stands directly in that sequence
		mk(r("S", gast.Star(gast.Ref("E"))),
			r("E", gast.A(gast.S(gast.Lab("a", gast.Ref("W")), gast.C(gast.L(";"), gast.A(gast.S(gast.L(":"), gast.Lab("a", gast.Plus(gast.Cl(gast.Chars("01")))), gast.L(";")), 5, mon.Spec{}), gast.A(gast.S(gast.L("="), gast.Lab("a", gast.Plus(gast.Cl(gast.Chars("01")))), gast.L(";")), 2, mon.Spec{})), gast.AndC(4, mon.Spec{})), 1, mon.Spec{})),
			r("W", gast.A(gast.Plus(gast.Cl(gast.Chars("ab"))), 3, mon.Spec{R: 2}))),
	}...)
}

// runKnownF02 executes the fixed witness of known finding F02.
func (c *Ctx) runKnownF02() {
	g := &gast.Grammar{Rules: []*gast.Rule{
		{Name: "S", Expr: gast.S(gast.Ref("A"), gast.L("b"), gast.AndC(2, mon.Spec{}))},
		{Name: "A", Expr: gast.A(gast.L("a"), 1, mon.Spec{})},
	}}
	g.Finalize()
	bt := c.BuildUnits([]*gast.Grammar{g}, [][]string{{}}, false, nil)
	defer bt.Close()
	if !bt.Units[0].OK {
		c.Broken("F02 witness does not build: " + bt.Units[0].Fail)
		return
	}
	cs := &mon.Case{ID: "f02", Pkg: bt.Units[0].Pkg, Input: []byte("ab")}
	res := bt.Run([]*mon.Case{cs}, runOptsDefault)
	r := res["f02"]
	m := ref.Run(g, []byte("ab"), ref.Opts{})
	fails := r == nil || len(r.Trace) != len(m.Trace)
	if !fails {
		for i := range m.Trace {
			if m.Trace[i] != r.Trace[i] {
				fails = true
			}
		}
	}
	c.MarkKnownStillFails("F02-stale-pred-pos", fails)
	c.Eval(1)
}

// C05: backtracking rolls back the state store; globalStore is never rolled back.
func C05(c *Ctx) {
	c.Rule("random grammars with state-change blocks before/inside/after every expression kind (counter, string log, key set/delete, and a *Box value mutated in place that only Clone protects), " +
		"action and predicate blocks that scribble on the store, globalStore log appends in every block kind; every block records a deep snapshot of c.state and the globalStore log; " +
		"oracle = the model's trace where state is a persistent value (a failing expression returns the store it was given). " +
		"distinct_nontrivial = distinct (grammar, input) with >=1 state block event, >=1 backtrack after it and >=3 events")
	c.Assume("throw/recover with state is only exercised in fixed strata (doc.go makes the grammar author responsible there); Memoize(true) runs in a pass of its own whose expected divergence is known finding F22")
	p := pegProfile()
	p.W[gast.StateCode] = 14
	p.W[gast.Action] = 10
	p.W[gast.AndCode] = 5
	p.W[gast.NotCode] = 4
	p.ActSpec = func(r *rand.Rand) mon.Spec {
		return mon.Spec{R: pick(r, 0, 0, 1, 3), Scr: r.Intn(3) == 0, G: r.Intn(2) == 0}
	}
	p.PredSpec = func(r *rand.Rand) mon.Spec {
		return mon.Spec{B: pick(r, 0, 0, 1, 3, 3, 4), Scr: r.Intn(2) == 0, G: r.Intn(3) == 0}
	}
	p.W[gast.AndCode] = 8
	p.W[gast.NotCode] = 5
	p.StateSpec = func(r *rand.Rand) mon.Spec { return mon.Spec{S: 1 + r.Intn(127), G: r.Intn(2) == 0} }
	nKept := 0
	strata := append(c05Strata(), rollbackStrata()...)
	for i, g := range strata {
		g.IndirectState = i%2 == 1
		g.StateHelperExtern = i%4 == 3 // the helper lives in another file of the package
	}
	cfg := &MCConfig{
		Profile: p, Grammars: strata, NGrammars: c.N(110, 1500),
		FlagSets:  [][]string{{}, {"-optimize-parser"}},
		InputsPer: c.N(90, 200), ExhaustLimit: c.N(150, 800), ExhaustLen: 6,
		OptSets: []OptSet{{Name: "default"}, {Name: "initstate=4", Init: 4}, {Name: "initstate=8", Init: 8}},
		Compare: CmpTrace | CmpState | CmpGLog | CmpVal | CmpEnd | CmpOK,
		NonTrivial: func(m *ref.Result) bool {
			return m.Backtracks >= 1 && len(m.Trace) >= 3 && m.KindsEval[gast.StateCode] >= 1
		},
		StalePS: "F02-stale-pred-pos",
		KeepGrammar: func(g *gast.Grammar) bool {
			g.Finalize()
			nKept++
			g.IndirectState = nKept%3 == 0 // every third grammar reaches c.state through a helper function
			g.StateHelperExtern = nKept%6 == 0
			return g.UsesState
		},
		ExtraInputs: func(g *gast.Grammar, r *rand.Rand) [][]byte {
			if g.Rules[0].Name != "DeepS" {
				return nil
			}
			var out [][]byte
			for _, d := range []int{3, 12, 15, 16, 17, 20, 31, 32, 33, 40, 64, 65, 90} {
				op := strings.Repeat("(", d)
				out = append(out, []byte(op+"y"), []byte(op+"x"+strings.Repeat(")", d)), []byte(op+"yz"), []byte(op+"x"+strings.Repeat(")", d-1)+"y"))
			}
			return out
		},
	}
	c.runKnownF22()
	c.ModelCheck(cfg)
	// Memoize(true): nothing in the documentation exempts it, and it does lose state changes (known
	// finding F22). The pass still decides everything else: an observation must equal either the
	// pure model or, field by field and block by block, the model variant that caches results per
	// (expression, offset) as Memoize does.
	mcfg := *cfg
	mcfg.NGrammars = c.N(40, 500)
	mcfg.FlagSets = [][]string{{}}
	mcfg.OptSets = []OptSet{{Name: "memoize", Memo: true}, {Name: "memoize,initstate=4", Memo: true, Init: 4}}
	c.ModelCheck(&mcfg)
	// state store through the left-recursion runtime (state changes of discarded growth attempts are dropped)
	c.lrPass(5, c.N(40, 400), CmpState|CmpVal|CmpEnd|CmpOK, []OptSet{{Name: "default"}, {Name: "initstate=4", Init: 4}}, false,
		func(m *ref.Result) bool { return m.LRGrowths >= 1 && m.KindsEval[gast.StateCode] >= 1 })
}

// runKnownF22 executes the two fixed witnesses of known finding F22.
func (c *Ctx) runKnownF22() {
	found := false
	for _, id := range c.KnownIDs() {
		if id == "F22-memo-state-not-replayed" {
			found = true
		}
	}
	if !found {
		return
	}
	num := func() *gast.Expr { return gast.Plus(gast.Cl(&gast.ClassSpec{Ranges: [][2]rune{{'0', '9'}}})) }
	// (a) Memoize(true), no left recursion: S <- ( A "!" / A "?" ) &{obs}; A <- #{n++} [0-9]+ on "1?"
	ga := &gast.Grammar{Rules: []*gast.Rule{
		{Name: "S", Expr: gast.S(gast.C(gast.S(gast.Ref("A"), gast.L("!")), gast.S(gast.Ref("A"), gast.L("?"))), gast.AndC(2, mon.Spec{}))},
		{Name: "A", Expr: gast.S(gast.St(1, mon.Spec{S: 1}), num())},
	}}
	// (b) no option at all, the always-on memo of a left-recursive rule:
	// E1 <- E1 "<" b:E2 "!" / E1 "<" b:E2 / E2; E2 <- E2 "+" At / At; At <- #{n++} [0-9]+ on "1<2"
	gb := &gast.Grammar{Rules: []*gast.Rule{
		{Name: "S", Expr: gast.S(gast.Ref("E1"), gast.AndC(2, mon.Spec{}), gast.Star(gast.Dot()))},
		{Name: "E1", Expr: gast.C(gast.S(gast.Ref("E1"), gast.L("<"), gast.Lab("b", gast.Ref("E2")), gast.L("!")), gast.S(gast.Ref("E1"), gast.L("<"), gast.Lab("b", gast.Ref("E2"))), gast.Ref("E2"))},
		{Name: "E2", Expr: gast.C(gast.S(gast.Ref("E2"), gast.L("+"), gast.Ref("At")), gast.Ref("At"))},
		{Name: "At", Expr: gast.S(gast.St(1, mon.Spec{S: 1}), num())},
	}}
	ga.Finalize()
	gb.Finalize()
	fails := false
	bt := c.BuildUnits([]*gast.Grammar{ga}, [][]string{{}}, false, nil)
	if bt.Units[0].OK {
		r := bt.Run([]*mon.Case{{ID: "f22a", Pkg: bt.Units[0].Pkg, Input: []byte("1?"), Memo: true}}, runOptsDefault)["f22a"]
		m := ref.Run(ga, []byte("1?"), ref.Opts{})
		fails = fails || r == nil || r.FinalState != m.FinalState
	} else {
		c.Broken("F22 witness (a) does not build: " + bt.Units[0].Fail)
	}
	bt.Close()
	bt = c.BuildUnits([]*gast.Grammar{gb}, [][]string{{"-support-left-recursion"}}, false, func(int) bool { return true })
	if bt.Units[0].OK {
		r := bt.Run([]*mon.Case{{ID: "f22b", Pkg: bt.Units[0].Pkg, Input: []byte("1<2")}}, runOptsDefault)["f22b"]
		m := ref.Run(gb, []byte("1<2"), ref.Opts{LR: true})
		fails = fails || r == nil || r.FinalState != m.FinalState
	} else {
		c.Broken("F22 witness (b) does not build: " + bt.Units[0].Fail)
	}
	bt.Close()
	c.MarkKnownStillFails("F22-memo-state-not-replayed", fails)
	c.Eval(2)
}

// rollbackStrata: a state change (bare, inside an action, inside a label, inside a group) at the
// head or in the middle of a sequence that fails afterwards, under every enclosing construct; an
// observer block looks at the store afterwards.
func rollbackStrata() []*gast.Grammar {
	var out []*gast.Grammar
	box := mon.Spec{S: 4 | 1 | 2}
	id := 0
	nid := func() int { id++; return id }
	wrappers := []func() *gast.Expr{
		func() *gast.Expr { return gast.St(nid(), box) },
		func() *gast.Expr { return gast.A(gast.S(gast.L("a"), gast.St(nid(), box)), nid(), mon.Spec{}) },
		func() *gast.Expr { return gast.Lab("x", gast.S(gast.St(nid(), box), gast.L("a"))) },
		func() *gast.Expr { return gast.S(gast.Opt(gast.L("a")), gast.St(nid(), box)) },
		func() *gast.Expr { return gast.C(gast.S(gast.L("a"), gast.St(nid(), box)), gast.St(nid(), box)) },
	}
	encl := []func(e *gast.Expr) *gast.Expr{
		gast.Star, gast.Opt, func(e *gast.Expr) *gast.Expr { return gast.Opt(gast.Plus(e)) },
		func(e *gast.Expr) *gast.Expr { return gast.C(e, gast.L("")) },
		func(e *gast.Expr) *gast.Expr { return gast.Opt(gast.AndE(e)) }, func(e *gast.Expr) *gast.Expr { return gast.Opt(gast.NotE(e)) },
		func(e *gast.Expr) *gast.Expr { return gast.Opt(gast.A(e, 99, mon.Spec{})) },
	}
	for wi := range wrappers {
		for head := 0; head < 2; head++ {
			for ei := range encl {
				id = 10
				var seq *gast.Expr
				if head == 0 {
					seq = gast.S(wrappers[wi](), gast.L("x"), gast.L("y"))
				} else {
					seq = gast.S(gast.L("a"), wrappers[wi](), gast.L("x"))
				}
				g := &gast.Grammar{Rules: []*gast.Rule{{Name: "S", Expr: gast.S(gast.St(1, box), encl[ei](seq), gast.AndC(2, mon.Spec{}), gast.Star(gast.Dot()), gast.AndC(3, mon.Spec{}))}}}
				out = append(out, g)
			}
		}
	}
	return out
}

func c05Strata() []*gast.Grammar {
	mk := func(rules ...*gast.Rule) *gast.Grammar { return &gast.Grammar{Rules: rules} }
	r := func(n string, e *gast.Expr) *gast.Rule { return &gast.Rule{Name: n, Expr: e} }
	box := mon.Spec{S: 4 | 1 | 2}
	obs := func(id int) *gast.Expr { return gast.AndC(id, mon.Spec{}) }
	cls := func(s string) *gast.Expr { return gast.Cl(gast.Chars(s)) }
	return []*gast.Grammar{
		// a Cloner value that leaves the store (deleted, or replaced by a plain value) in an alternative
		// that fails after further snapshots were taken; the rollback brings it back, and an in-place
		// change made to it in the next failing alternative must be rolled back like any other
		mk(r("S", gast.S(gast.St(1, mon.Spec{S: 4}), gast.Ref("Body"), gast.NotE(gast.Dot()))), r("Body", gast.C(gast.Ref("Drop"), gast.Ref("Replace"), gast.Ref("Push"), gast.Ref("Plain"))),
			r("Drop", gast.S(gast.AndE(gast.L("d")), gast.St(2, mon.Spec{S: 32 | 1}), gast.C(gast.L("x"), gast.L("y")))),
			r("Replace", gast.S(gast.AndE(gast.L("s")), gast.St(3, mon.Spec{S: 64 | 1}), gast.C(gast.L("x"), gast.L("y")))),
			r("Push", gast.S(gast.St(4, mon.Spec{S: 4 | 1}), gast.Opt(cls("ds")), gast.L("z"))), r("Plain", gast.S(gast.Opt(cls("ds")), gast.L("a"), obs(5)))),
		mk(r("S", gast.S(gast.St(1, mon.Spec{S: 4}), gast.Star(gast.C(gast.S(gast.L("d"), gast.St(2, mon.Spec{S: 32}), gast.Opt(gast.L("q")), gast.L("!")), gast.S(gast.L("s"), gast.St(3, mon.Spec{S: 64}), gast.Star(gast.L("q")), gast.L("!")),
			gast.S(gast.St(4, mon.Spec{S: 4}), gast.Opt(cls("ds")), gast.L("z")), gast.S(cls("dsa"), obs(5)))), obs(6)))),
		// state change inside a failing choice alternative, observed afterwards
		mk(r("S", gast.S(gast.St(1, box), gast.C(gast.S(gast.L("a"), gast.St(2, box), gast.L("x")), gast.S(gast.L("a"), obs(3))), gast.Star(gast.Dot()), obs(4)))),
		// inside & and !
		mk(r("S", gast.S(gast.AndE(gast.S(gast.St(1, box), gast.L("a"))), gast.NotE(gast.S(gast.St(2, box), gast.L("b"))), obs(3), gast.Star(gast.Dot())))),
		// failed repetition iteration and failed optional
		mk(r("S", gast.S(gast.Star(gast.S(gast.L("a"), gast.St(1, box), gast.L("b"))), gast.Opt(gast.S(gast.St(2, box), gast.L("z"))), obs(3), gast.Star(gast.Dot())))),
		// action scribbling
		mk(r("S", gast.S(gast.St(1, box), gast.A(gast.L("a"), 2, mon.Spec{Scr: true}), obs(3), gast.Star(gast.Dot())))),
		// recursion: a rule reaches its state block only through the rule that calls it (nested lists);
		// both orders of the two rules
		mk(r("S", gast.S(gast.St(1, box), gast.Ref("List"), obs(2), gast.Star(gast.Dot()))),
			r("List", gast.S(gast.L("["), gast.Star(gast.S(gast.Ref("Value"), gast.L(","))), gast.Ref("Value"), gast.L("]"), gast.St(3, box))),
			r("Value", gast.C(gast.Ref("List"), gast.Plus(gast.Cl(gast.Chars("01")))))),
		mk(r("S", gast.S(gast.St(1, box), gast.Ref("List"), obs(2), gast.Star(gast.Dot()))),
			r("Value", gast.C(gast.Ref("List"), gast.Plus(gast.Cl(gast.Chars("01"))))),
			r("List", gast.S(gast.L("["), gast.Opt(gast.S(gast.Ref("Value"), gast.Star(gast.S(gast.L(","), gast.Ref("Value"))))), gast.L("]"), gast.St(3, box)))),
		// inside a lookahead: a sequence / alternative that changed the state and failed, then an observer
		// in the SAME lookahead
		mk(r("S", gast.S(gast.St(1, box), gast.C(gast.S(gast.AndE(gast.S(gast.Ref("Scan"), obs(2))), obs(3)), obs(4)), gast.Star(gast.Dot()))),
			r("Scan", gast.Star(gast.C(gast.Ref("Mark"), gast.Cl(gast.Chars("ab*"))))), r("Mark", gast.S(gast.L("*"), gast.St(5, box), gast.L("!")))),
		mk(r("S", gast.S(gast.St(1, box), gast.NotE(gast.S(gast.C(gast.S(gast.L("a"), gast.St(2, box), gast.L("x")), gast.L("a")), obs(3), gast.L("!"))), obs(4), gast.Star(gast.Dot())))),
		// a throw below two nested recovery operators for its label, both recovery expressions fail;
		// the abandoned alternative is followed by one that keeps changing the store and backtracking
		mk(r("S", gast.S(gast.St(1, box), gast.C(gast.Ref("Strict"), gast.Ref("Loose")), obs(2), gast.Star(gast.Dot()))),
			r("Strict", gast.S(gast.Rec(gast.Ref("Block"), gast.L("\n"), "L1"), obs(3))),
			r("Block", gast.Rec(gast.Plus(gast.Ref("Entry")), gast.L(" "), "L1")),
			r("Entry", gast.S(gast.Plus(gast.Cl(gast.Chars("ab"))), gast.St(4, box), gast.C(gast.L(";"), gast.Thr("L1")))),
			r("Loose", gast.S(gast.Star(gast.C(gast.Ref("Pair"), gast.Ref("Single"), gast.Ref("Junk"))), obs(5))),
			r("Pair", gast.S(gast.Ref("W"), gast.St(6, box), gast.L("="), gast.Ref("W"))),
			r("Single", gast.S(gast.Ref("W"), gast.St(7, mon.Spec{S: 8 | 1}), gast.AndE(gast.Ref("Junk")))),
			r("Junk", gast.Cl(&gast.ClassSpec{Chars: []rune("ab"), Inverted: true})),
			r("W", gast.Plus(gast.Cl(gast.Chars("ab"))))),
		// a label thrown below two nested recovery expressions for it, both of which change the state and fail
		mk(r("S", gast.S(gast.St(1, box), gast.Star(gast.C(gast.S(gast.Ref("G"), obs(2)), gast.S(gast.Cl(gast.Chars("ab")), obs(3)))), obs(4), gast.Star(gast.Dot()))),
			r("G", gast.Rec(gast.Ref("I"), gast.S(gast.St(5, box), gast.L("q")), "L1")),
			r("I", gast.Rec(gast.S(gast.L("a"), gast.St(6, box), gast.C(gast.L("a"), gast.Thr("L1"))), gast.S(gast.St(7, box), gast.L("r")), "L1"))),
		// an optional / repeated group that runs k state blocks, takes a snapshot (a lookahead) and then
		// fails, followed directly by k bare state blocks of the enclosing sequence, a lookahead and an
		// observer: the store after the rollback has "as many changes" as the abandoned path had, with
		// other content (a snapshot remembered by a change counter would be the stale one)
		mk(r("S", gast.S(gast.Opt(gast.S(gast.St(1, mon.Spec{S: 1}), gast.AndE(gast.L("a")), gast.L("b"))), gast.St(2, mon.Spec{S: 2}), gast.AndE(gast.L("a")), obs(3), gast.Star(gast.Dot()), obs(4)))),
		mk(r("S", gast.S(gast.Star(gast.S(gast.St(1, mon.Spec{S: 8}), gast.St(2, mon.Spec{S: 1}), gast.NotE(gast.L("c")), gast.L("a"), gast.L("b"))), gast.St(3, mon.Spec{S: 2}), gast.St(4, box), gast.NotE(gast.L("c")), obs(5),
			gast.C(gast.S(gast.St(6, mon.Spec{S: 16 | 1}), gast.AndE(gast.Dot()), gast.L("z")), gast.S(gast.St(7, mon.Spec{S: 2}), gast.AndE(gast.Dot()), obs(8), gast.Star(gast.Dot()))), obs(9)))),
		// two keys holding slices of one Cloner slice type that start at the same element with different
		// lengths; snapshots are taken and restored around them, each key keeps its own value
		mk(r("S", gast.S(gast.St(1, mon.Spec{S: 128 | 1}), gast.C(gast.S(gast.St(2, mon.Spec{S: 1}), cls("ab"), gast.L("!")), gast.S(cls("ab"), obs(3))), obs(4), gast.Star(gast.C(gast.S(gast.St(5, mon.Spec{S: 128}), gast.L("x"), gast.AndE(gast.L("y")), obs(6)), gast.S(gast.Dot(), obs(7)))), obs(8)))),
		// deep nesting: a failure that travels up through many nested sequence/choice levels, then another
		// descent that changes the state at every level and fails at the bottom, then an observer (a
		// bounded store of recycled snapshots is exhausted by the depth alone) - see the deep inputs of C05
		mk(r("DeepS", gast.S(gast.St(1, mon.Spec{S: 1 | 8}), gast.C(gast.Ref("P1"), gast.Ref("P2"), gast.Ref("Ob")), gast.NotE(gast.Dot()))),
			r("P1", gast.C(gast.S(gast.L("("), gast.Ref("P1"), gast.L(")")), gast.L("x"))),
			r("P2", gast.C(gast.S(gast.L("("), gast.St(2, mon.Spec{S: 1 | 4}), gast.Ref("P2")), gast.S(gast.L("y"), gast.L("z")))),
			r("Ob", gast.S(gast.Star(gast.L("(")), gast.L("y"), obs(3)))),
		// a state block in a recovery expression, the label thrown inside a choice alternative that holds no
		// state block itself; the alternative fails after the recovery, the change is rolled back with it
		mk(r("S", gast.S(gast.St(1, mon.Spec{S: 1}), gast.Rec(gast.C(gast.S(gast.L("l"), gast.Ref("I"), gast.L(";")), gast.S(gast.L("l"), gast.Star(cls("abx")))), gast.Ref("R"), "L1"), obs(2), gast.Star(gast.Dot()), obs(3))),
			r("I", gast.C(cls("ab"), gast.Thr("L1"))), r("R", gast.S(gast.St(4, mon.Spec{S: 1 | 2}), gast.Star(cls("x"))))),
		mk(r("S", gast.S(gast.Rec(gast.Star(gast.C(gast.S(gast.Ref("I"), gast.L("!")), gast.S(gast.Ref("I"), obs(2)))), gast.S(gast.St(4, box), cls("xy")), "L1"), obs(3), gast.Star(gast.Dot()))),
			r("I", gast.C(cls("ab"), gast.Thr("L1")))),
	}
}

// C11: error contract and panic containment.
func C11(c *Ctx) {
	c.Rule("random grammars whose action/predicate/state blocks return errors (own error value, a shared sentinel, always or decided by an (id, offset) coin) or panic (error, string, other value); " +
		"every subset and order of failing blocks arises from the inputs; options Recover(true)/Recover(false) and three file names; in-package harness reads the dynamic type of the error and of each element, Inner identity, pos and prefix; " +
		"oracle = the model's error list (order of first occurrence, de-duplication by message, prefix file:line:col (offset): rule <display or name>, value alongside errors, panic = last error with nil value or propagated). " +
		"distinct_nontrivial = distinct (grammar, input, option set) with >=1 code-block error or panic")
	c.Assume("the position in the prefix of a recovered panic is read as the parser's position when the panic was raised (end of the match for an action, current position for predicate and state blocks) - the reading under which 'prefixed with ... line:col (offset) and the rule in which it arose' also covers the final error")
	p := pegProfile()
	p.W[gast.Action] = 16
	p.W[gast.AndCode] = 5
	p.W[gast.NotCode] = 4
	p.W[gast.StateCode] = 5
	p.PDisplay = 40
	p.ActSpec = func(r *rand.Rand) mon.Spec {
		return mon.Spec{R: pick(r, 0, 0, 1, 3), E: pick(r, 0, 0, 1, 2, 2, 3, 4, 5, 6, 7), P: pick(r, 0, 0, 0, 0, 0, 0, 1, 2, 3)}
	}
	p.PredSpec = func(r *rand.Rand) mon.Spec {
		return mon.Spec{B: pick(r, 0, 0, 1, 4), E: pick(r, 0, 0, 1, 2, 3), P: pick(r, 0, 0, 0, 0, 0, 0, 0, 1, 2)}
	}
	p.StateSpec = func(r *rand.Rand) mon.Spec {
		return mon.Spec{S: 1, E: pick(r, 0, 1, 2, 3, 4), P: pick(r, 0, 0, 0, 0, 0, 0, 3)}
	}
	cfg := &MCConfig{
		Profile: p, Grammars: c11Strata(), NGrammars: c.N(110, 1500),
		FlagSets:  [][]string{{}, {"-optimize-parser"}},
		InputsPer: c.N(80, 200), ExhaustLimit: c.N(120, 600), ExhaustLen: 6,
		OptSets:       []OptSet{{Name: "default"}, {Name: "norecover", NoRecover: true}, {Name: "file", File: "in.txt"}, {Name: "file-colon", File: "dir:a/b.x:3"}, {Name: "file-percent", File: "export%20data 100%.csv"}, {Name: "memoize", Memo: true}, {Name: "stats", Stats: true}, {Name: "debug", Debug: true}, {Name: "reader-kept", Reader: true}},
		DebugOptEvery: 5,
		Compare:       CmpErrs | CmpErrTypes | CmpVal | CmpPanic | CmpOK,
		NonTrivial: func(m *ref.Result) bool {
			if m.Panicked {
				return true
			}
			for _, e := range m.Errs {
				if e.Kind == "own" || e.Kind == "sentinel" {
					return true
				}
			}
			return false
		},
		Entrypoints: true,
	}
	c.ModelCheck(cfg)
	// blocks whose error text depends on the globalStore: every evaluation is another error. (Not under
	// Memoize: caching a block that is no function of its inputs is what the option is documented to do.)
	icfg := *cfg
	icfg.Grammars = c11ImpureStrata()
	icfg.NGrammars = 0
	icfg.OptSets = []OptSet{{Name: "default"}, {Name: "norecover", NoRecover: true}, {Name: "stats", Stats: true}, {Name: "debug", Debug: true}}
	c.ModelCheck(&icfg)
	// the same contract through the left-recursion runtime (errors of discarded growth attempts
	// are dropped, everything else accumulates as usual); trace not compared there
	lr := []*gast.Grammar{c08Strata()[0]} // an erroring operand evaluated in a discarded growth attempt and again afterwards
	lrng := rand.New(rand.NewSource(c.Seed*97 + 11))
	for i := 0; i < c.N(40, 500); i++ {
		lr = append(lr, genLR(lrng, i%2 == 1))
	}
	c.ModelCheck(&MCConfig{
		Profile: p, Grammars: lr, NGrammars: 0, LR: true,
		FlagSets:  [][]string{{"-support-left-recursion"}, {"-support-left-recursion", "-optimize-parser"}},
		InputsPer: 0, ExhaustLimit: c.N(60, 300), ExhaustLen: 5,
		ExtraInputs: func(g *gast.Grammar, r *rand.Rand) [][]byte {
			var out [][]byte
			for _, in := range lrInputs(g, r, c.N(50, 150)) {
				if len(in) <= 40 {
					out = append(out, in)
				}
			}
			return out
		},
		OptSets:    []OptSet{{Name: "default"}, {Name: "file", File: "in.txt"}},
		Compare:    CmpErrs | CmpErrTypes | CmpVal | CmpPanic | CmpOK,
		NonTrivial: cfg.NonTrivial,
	})
}

func c11Strata() []*gast.Grammar {
	mk := func(rules ...*gast.Rule) *gast.Grammar { return &gast.Grammar{Rules: rules} }
	r := func(n string, e *gast.Expr) *gast.Rule { return &gast.Rule{Name: n, Expr: e} }
	return []*gast.Grammar{
		// same sentinel at the same and at different positions; value and errors together
		mk(r("S", gast.A(gast.Star(gast.Ref("A")), 9, mon.Spec{})), &gast.Rule{Name: "A", Display: "an a", Expr: gast.C(gast.S(gast.A(gast.L("a"), 1, mon.Spec{E: 3}), gast.L("x")), gast.A(gast.L("a"), 2, mon.Spec{E: 3}))}),
		// panic after errors were recorded
		mk(r("S", gast.S(gast.A(gast.L("a"), 1, mon.Spec{E: 1}), gast.A(gast.L("b"), 2, mon.Spec{P: 4}), gast.L("c")))),
		// the same block error recorded several times at one position (backtracking over a shared
		// prefix), then a panic: the list that comes back with the panic is de-duplicated too
		mk(r("S", gast.S(gast.C(gast.S(gast.Ref("W"), gast.L("!")), gast.S(gast.Ref("W"), gast.L("?")), gast.Ref("W")), gast.Opt(gast.Ref("P")), gast.Star(gast.Dot()))),
			r("W", gast.A(gast.Plus(gast.Cl(gast.Chars("ab"))), 1, mon.Spec{E: 1})), r("P", gast.A(gast.L("x"), 2, mon.Spec{P: 4}))),
		// a panic below a lookahead after something was consumed there
		mk(r("S", gast.S(gast.L("a"), gast.C(gast.S(gast.NotE(gast.S(gast.L("bb"), gast.A(gast.L("c"), 1, mon.Spec{P: 4}))), gast.Star(gast.Dot())), gast.Star(gast.Dot()))))),
		mk(r("S", gast.S(gast.L("a"), gast.AndE(gast.S(gast.L("b\n"), gast.Plus(gast.L("b")), gast.AndC(2, mon.Spec{P: 2}))), gast.Star(gast.Dot())))),
		// nested handlers: the inner recovery expression reports an error and then fails, the outer one recovers
		mk(r("S", gast.S(gast.Lab("v", gast.Ref("Outer")), gast.Star(gast.Dot()))), r("Outer", gast.Rec(gast.Ref("Inner"), gast.S(gast.AndC(1, mon.Spec{E: 1}), gast.A(gast.Dot(), 2, mon.Spec{})), "L1")),
			r("Inner", gast.Rec(gast.Ref("Item"), gast.S(gast.AndC(3, mon.Spec{E: 1}), gast.A(gast.L("!"), 4, mon.Spec{E: 1})), "L1")), r("Item", gast.C(gast.A(gast.Plus(gast.Cl(gast.Chars("01"))), 5, mon.Spec{}), gast.Thr("L1")))),
		// panic with string / value payloads in predicate and state blocks
		mk(r("S", gast.S(gast.L("a"), gast.AndC(1, mon.Spec{P: 2}), gast.St(2, mon.Spec{P: 3}), gast.L("b")))),
		// errors of an uncomparable dynamic type (a slice), several in a row at different positions and,
		// through the shared prefix, twice at one position: recording and de-duplicating them must not
		// compare the error values themselves
		mk(r("S", gast.A(gast.Star(gast.S(gast.Ref("F"), gast.Opt(gast.L(",")))), 9, mon.Spec{})), r("F", gast.C(gast.S(gast.Ref("W"), gast.L("!")), gast.Ref("W"))),
			r("W", gast.A(gast.Plus(gast.Cl(gast.Chars("ab"))), 1, mon.Spec{E: 6}))),
		mk(r("S", gast.S(gast.A(gast.L("a"), 1, mon.Spec{E: 6}), gast.AndC(2, mon.Spec{E: 6}), gast.A(gast.L("b"), 3, mon.Spec{E: 6}), gast.St(4, mon.Spec{S: 1, E: 6}), gast.Star(gast.Dot())))),
		// blocks that hand on the error of a nested Parse call of the same package as it is (included
		// files, embedded fragments): its dynamic type is the parser's own error list, and it is still
		// one error of one block - wrapped, prefixed with the outer position and rule, recorded once
		mk(r("S", gast.A(gast.Star(gast.S(gast.Ref("F"), gast.Opt(gast.L(",")))), 9, mon.Spec{})), r("F", gast.C(gast.S(gast.Ref("W"), gast.L("!")), gast.Ref("W"))),
			&gast.Rule{Name: "W", Display: "a word", Expr: gast.A(gast.Plus(gast.Cl(gast.Chars("ab"))), 1, mon.Spec{E: 7})}),
		mk(r("S", gast.S(gast.A(gast.L("a"), 1, mon.Spec{E: 7}), gast.AndC(2, mon.Spec{E: 7}), gast.A(gast.L("b"), 3, mon.Spec{E: 7}), gast.St(4, mon.Spec{S: 1, E: 7}), gast.Star(gast.Dot())))),
	}
}

// C12: farthest failure position and exact expected set.
func C12(c *Ctx) {
	c.Rule("random grammars without erroring blocks, rich in terminals that can start at the same offset on different paths and in !, !!, &! around terminals and rule calls; inputs failing at every offset incl. EOF; " +
		"oracle = the model's farthest-failure computation (greatest offset at which a terminal started and failed, or matched inside a negative predicate; sorted de-duplicated expected list, !. rendered EOF) compared with the single returned error's pos, expected list and message. " +
		"distinct_nontrivial = distinct (grammar, failing input) whose expected list has >=2 entries or a !-entry")
	c.Assume("at offset 0 both 1:1 (the initial value) and posfn(0) are accepted as the reported position")
	p := pegProfile()
	p.W[gast.Not] = 12
	p.W[gast.And] = 7
	p.W[gast.Lit] = 20
	p.W[gast.Class] = 14
	p.W[gast.Any] = 6
	p.W[gast.Action] = 3
	p.W[gast.AndCode] = 1
	p.W[gast.NotCode] = 1
	p.PUClass = 5
	cfg := &MCConfig{
		Profile: p, Grammars: c12Strata(), NGrammars: c.N(120, 2000),
		FlagSets:  [][]string{{}, {"-optimize-parser"}, {"-optimize-basic-latin"}},
		InputsPer: c.N(90, 200), ExhaustLimit: c.N(250, 1200), ExhaustLen: 7,
		OptSets: []OptSet{{Name: "default"}, {Name: "file", File: "f.peg"}, {Name: "stats-reused", StatsReused: true}},
		Compare: CmpNoMatch | CmpOK,
		NonTrivial: func(m *ref.Result) bool {
			if !m.NoMatchErr {
				return false
			}
			if len(m.Expected) >= 2 {
				return true
			}
			for _, e := range m.Expected {
				if len(e) > 0 && e[0] == '!' || e == "EOF" {
					return true
				}
			}
			return false
		},
		Entrypoints: true,
	}
	c.ModelCheck(cfg)
	// Memoize(true): the message must be the same as without it, or differ exactly as known finding
	// F23 says (the observation then equals the memo model variant)
	c.runKnownF23()
	mcfg := *cfg
	mcfg.NGrammars = c.N(50, 600)
	mcfg.FlagSets = [][]string{{}, {"-optimize-basic-latin"}}
	mcfg.OptSets = []OptSet{{Name: "memoize", Memo: true}}
	c.ModelCheck(&mcfg)
	// inputs that are not valid UTF-8 under AllowInvalidUTF8(true) (without the option the encoding
	// errors take the place of the "no match" error): every malformed byte is a rune of its own, also
	// for the line and column of the farthest failure
	icfg := *cfg
	icfg.NGrammars = c.N(40, 500)
	icfg.Invalid = true
	icfg.FlagSets = [][]string{{}, {"-optimize-basic-latin"}, {"-optimize-parser"}}
	icfg.OptSets = []OptSet{{Name: "allowinvalid", AllowInvalid: true}}
	c.ModelCheck(&icfg)
	c.lrPass(12, c.N(40, 400), CmpNoMatch|CmpOK, []OptSet{{Name: "default"}}, false, cfg.NonTrivial)
}

// runKnownF23 executes the fixed witness of known finding F23.
func (c *Ctx) runKnownF23() {
	found := false
	for _, id := range c.KnownIDs() {
		if id == "F23-memo-expected-set" {
			found = true
		}
	}
	if !found {
		return
	}
	g := &gast.Grammar{Rules: []*gast.Rule{
		{Name: "S", Expr: gast.C(gast.S(gast.NotE(gast.Ref("B")), gast.L("z")), gast.Ref("B"))},
		{Name: "B", Expr: gast.C(gast.L("b"), gast.L("c"))},
	}}
	g.Finalize()
	bt := c.BuildUnits([]*gast.Grammar{g}, [][]string{{}}, false, nil)
	defer bt.Close()
	if !bt.Units[0].OK {
		c.Broken("F23 witness does not build: " + bt.Units[0].Fail)
		return
	}
	r := bt.Run([]*mon.Case{{ID: "f23", Pkg: bt.Units[0].Pkg, Input: []byte("d"), Memo: true}}, runOptsDefault)["f23"]
	m := ref.Run(g, []byte("d"), ref.Opts{})
	fails := r == nil || len(r.Errs) != 1 || len(r.Errs[0].Expected) != len(m.Expected)
	c.MarkKnownStillFails("F23-memo-expected-set", fails)
	c.Eval(1)
}

func c12Strata() []*gast.Grammar {
	mk := func(rules ...*gast.Rule) *gast.Grammar { return &gast.Grammar{Rules: rules} }
	r := func(n string, e *gast.Expr) *gast.Rule { return &gast.Rule{Name: n, Expr: e} }
	// wide grammar: many terminals fail at one offset, many times over (non-left-factored alternatives)
	var ops []*gast.Expr
	for _, o := range strings.Split("+ - * / % ^ & | < > = ~ @ $ ? :", " ") {
		ops = append(ops, gast.L(o))
	}
	wide := mk(r("S", gast.C(gast.S(gast.Ref("E"), gast.L(";")), gast.S(gast.Ref("E"), gast.L(".")), gast.S(gast.Ref("E"), gast.L("!")), gast.S(gast.Ref("E"), gast.Cl(gast.Chars(",#"))))),
		r("E", gast.S(gast.Ref("T"), gast.Star(gast.S(gast.C(ops...), gast.Ref("T"))))), r("T", gast.C(gast.Plus(gast.Cl(gast.Chars("01"))), gast.S(gast.L("("), gast.Ref("E"), gast.L(")")))))
	digit := func() *gast.Expr { return gast.Cl(&gast.ClassSpec{Ranges: [][2]rune{{'0', '9'}}}) }
	return []*gast.Grammar{
		// the end of input expected next to terminals that matched inside a negative predicate at the same
		// offset (keyword guards): "!x" entries sort before "!." - the list still says EOF, last
		mk(r("S", gast.S(gast.Star(gast.S(gast.Ref("W"), gast.L(" "))), gast.Ref("E"))), r("W", gast.S(gast.NotE(gast.L("end")), gast.Plus(gast.Cl(&gast.ClassSpec{Ranges: [][2]rune{{'a', 'z'}}})))), r("E", gast.NotE(gast.Dot()))),
		mk(r("S", gast.S(gast.Star(gast.C(gast.S(gast.NotE(gast.Cl(gast.Chars("#;"))), gast.NotE(gast.Li("x")), gast.Cl(gast.Chars("abxX#"))), gast.L(" "))), gast.C(gast.NotE(gast.Dot()), gast.L(";"))))),
		wide,
		// alternatives that can never be chosen (a literal after a literal that is its prefix, a class
		// after a wider class, the same terminal twice) still fail where they are tried and belong to
		// the expected set
		mk(r("S", gast.S(gast.Plus(gast.Cl(gast.Chars("ab"))), gast.Star(gast.L(" ")), gast.C(gast.L("<"), gast.L("<="), gast.L("="), gast.L("=="), gast.L("!="), gast.Li("x"), gast.Li("xy")), gast.Star(gast.L(" ")), gast.Plus(gast.Cl(gast.Chars("ab"))), gast.NotE(gast.Dot())))),
		mk(r("S", gast.S(gast.Star(gast.C(gast.Cl(gast.Chars("abc")), gast.Cl(gast.Chars("ab")), gast.L("a"), gast.L("ab"), gast.Dot(), gast.L("zz"))), gast.C(gast.L("k"), gast.L("k"), gast.L("kk"))))),
		// end of input expected on several backtracking paths at the farthest offset
		mk(r("S", gast.C(gast.S(gast.Ref("A"), gast.L(";")), gast.S(gast.Ref("A"), gast.NotE(gast.Dot())), gast.S(gast.Ref("A"), gast.Star(gast.L(" ")), gast.NotE(gast.Dot())), gast.S(gast.Ref("A"), gast.NotE(gast.NotE(gast.NotE(gast.Dot())))))),
			r("A", gast.S(gast.Cl(gast.Chars("ab")), gast.L("="), gast.Plus(digit())))),
		// a repetition over a class inside a negative predicate, through a rule reference
		mk(r("S", gast.S(gast.NotE(gast.Ref("Digits")), gast.Ref("Word"), gast.L("'"))), r("Digits", gast.Plus(digit())), r("Word", gast.Plus(gast.Cl(gast.Chars("ab01"))))),
		// the same terminal text inside a negative predicate and outside it, tried at the same offset
		mk(r("S", gast.S(gast.NotE(digit()), gast.Plus(gast.Ref("IdChar")), gast.NotE(gast.Dot()))), r("IdChar", gast.C(gast.Cl(&gast.ClassSpec{Ranges: [][2]rune{{'a', 'z'}}}), digit(), gast.L("_")))),
		mk(r("S", gast.S(gast.NotE(gast.S(gast.L("if"), gast.NotE(gast.Cl(gast.Chars("ab"))))), gast.C(gast.L("if"), gast.Plus(gast.Cl(gast.Chars("ab")))), gast.L(";")))),
		mk(r("S", gast.S(gast.Star(gast.C(gast.L("ab"), gast.S(gast.L("a"), gast.NotE(gast.L("b"))))), gast.NotE(gast.Dot())))),
		mk(r("S", gast.S(gast.L("a"), gast.NotE(gast.NotE(gast.Cl(gast.Chars("xy")))), gast.AndE(gast.NotE(gast.L("xz"))), gast.Dot(), gast.NotE(gast.Dot())))),
		mk(r("S", gast.S(gast.Opt(gast.L("\n")), gast.C(gast.L("a"), gast.Li("B"), gast.Cl(&gast.ClassSpec{Chars: []rune("a"), Inverted: true})), gast.L("c")))),
		// the end-of-input test nested in a negative predicate (EOL <- "\n" / !.), evaluated where the input ends
		mk(r("S", gast.S(gast.L("\""), gast.Star(gast.S(gast.NotE(gast.C(gast.L("\""), gast.Ref("EOL"))), gast.Dot())), gast.L("\""))), r("EOL", gast.C(gast.L("\n"), gast.NotE(gast.Dot())))),
		mk(r("S", gast.Star(gast.Ref("Line"))), r("Line", gast.S(gast.Plus(gast.Cl(gast.Chars("ab"))), gast.L("="), gast.Plus(gast.S(gast.NotE(gast.Ref("EOL")), gast.Cl(gast.Chars("01")))), gast.Ref("EOL"))),
			r("EOL", gast.C(gast.L("\n"), gast.S(gast.L(";"), gast.NotE(gast.NotE(gast.NotE(gast.Dot())))), gast.NotE(gast.Dot())))),
	}
}

// C14: throw and recover follow the labelled-failure semantics.
func C14(c *Ctx) {
	c.Rule("random grammars with 1-3 failure labels, nested recovery operators (shared labels, throws in called rules, inside repetitions, predicates and alternatives abandoned later, recovery expressions that fail on some inputs), blocks inside guarded and recovery expressions so that which handler ran, where and in which order is visible in the trace; " +
		"oracle = the model's explicit handler stack (innermost entry listing the label first, fall-through outwards, handler in force only while its guarded expression is evaluated). " +
		"distinct_nontrivial = distinct (grammar, input) in which >=1 throw was evaluated while >=1 handler for its label was in force")
	c.Assume("recovery expressions only throw labels strictly greater than the ones they handle (no unbounded handler recursion); grammars pigeon rejects as left-recursive because of its static treatment of throw/recover are skipped and counted")
	p := pegProfile()
	p.ThrowLabels = []string{"L1", "L2", "L3", "L4"}
	p.W[gast.Throw] = 14
	p.W[gast.Recovery] = 16
	p.W[gast.Action] = 12
	p.W[gast.AndCode] = 3
	p.W[gast.NotCode] = 3
	p.PUClass = 0
	// handlers are dynamically scoped, so the order in which the rules are written must not matter:
	// every stratum also runs with the rules after the first in the opposite order (throwing rules
	// then stand before every operator that lists their label), and so does every second random grammar
	strata := c14Strata()
	for _, g := range c14Strata() {
		if len(g.Rules) > 2 {
			for a, b := 1, len(g.Rules)-1; a < b; a, b = a+1, b-1 {
				g.Rules[a], g.Rules[b] = g.Rules[b], g.Rules[a]
			}
			strata = append(strata, g)
		}
	}
	cfg := &MCConfig{
		Profile: p, Grammars: strata, NGrammars: c.N(300, 2500), ReverseRules: true,
		FlagSets:  [][]string{{}, {"-optimize-parser"}},
		OptSets:   []OptSet{{Name: "default"}, {Name: "stats", Stats: true}, {Name: "stats-reused", StatsReused: true}},
		InputsPer: c.N(90, 200), ExhaustLimit: c.N(200, 800), ExhaustLen: 6,
		Compare:    CmpVal | CmpEnd | CmpTrace | CmpOK,
		NonTrivial: func(m *ref.Result) bool { return m.KindsEval[gast.Throw] >= 1 && m.KindsEval[gast.Recovery] >= 1 },
		StalePS:    "F02-stale-pred-pos",
		KeepGrammar: func(g *gast.Grammar) bool {
			k := g.KindsUsed()
			return k[gast.Throw] > 0 && k[gast.Recovery] > 0
		},
		Entrypoints: true,
	}
	c.ModelCheck(cfg)
	// label names whose concatenations coincide ({err, listEnd} / {errList, end}; {a, B} / {A, b} up to
	// the case of first letters): every operator keeps exactly the label set written on it
	for k, names := range [][]string{{"err", "errList", "listEnd", "end"}, {"a", "A", "b", "B"}} {
		p2 := *p
		p2.ThrowLabels = names
		cfg2 := *cfg
		cfg2.Profile = &p2
		cfg2.NGrammars = c.N(60, 500)
		cfg2.Grammars = nil
		if k == 0 {
			cfg2.Grammars = c14NameStrata()
		}
		c.ModelCheck(&cfg2)
	}
}

func c14NameStrata() []*gast.Grammar {
	mk := func(rules ...*gast.Rule) *gast.Grammar { return &gast.Grammar{Rules: rules} }
	r := func(n string, e *gast.Expr) *gast.Rule { return &gast.Rule{Name: n, Expr: e} }
	act := func(e *gast.Expr, id int) *gast.Expr { return gast.A(e, id, mon.Spec{}) }
	body := func() *gast.Expr {
		return gast.C(act(gast.Cl(gast.Chars("ab")), 3), gast.S(gast.L("1"), gast.Thr("err")), gast.S(gast.L("2"), gast.Thr("listEnd")), gast.S(gast.L("3"), gast.Thr("errList")), gast.S(gast.L("4"), gast.Thr("end")))
	}
	return []*gast.Grammar{
		mk(r("S", gast.S(gast.Star(gast.Ref("Item")), gast.Star(gast.Dot()))), r("Item", gast.Rec(gast.Rec(gast.Ref("Body"), act(gast.L("!"), 1), "err", "listEnd"), act(gast.L("?"), 2), "errList", "end")), r("Body", body())),
		mk(r("S", gast.S(gast.Star(gast.C(gast.Ref("I1"), gast.Ref("I2"))), gast.Star(gast.Dot()))), r("I1", gast.Rec(gast.S(gast.L("<"), gast.Ref("Body")), act(gast.L("!"), 1), "errList", "end")),
			r("I2", gast.Rec(gast.S(gast.L("("), gast.Ref("Body")), act(gast.L("?"), 2), "err", "listEnd")), r("Body", body())),
		mk(r("S", gast.S(gast.Star(gast.C(gast.Rec(gast.S(gast.L("<"), gast.Ref("T")), act(gast.L("!"), 1), "a", "B"), gast.Rec(gast.S(gast.L("("), gast.Ref("T")), act(gast.L("?"), 2), "A", "b"))), gast.Star(gast.Dot()))),
			r("T", gast.C(gast.S(gast.L("1"), gast.Thr("a")), gast.S(gast.L("2"), gast.Thr("A")), gast.S(gast.L("3"), gast.Thr("b")), gast.S(gast.L("4"), gast.Thr("B")), act(gast.L("x"), 3)))),
	}
}

func c14Strata() []*gast.Grammar {
	mk := func(rules ...*gast.Rule) *gast.Grammar { return &gast.Grammar{Rules: rules} }
	r := func(n string, e *gast.Expr) *gast.Rule { return &gast.Rule{Name: n, Expr: e} }
	act := func(e *gast.Expr, id int) *gast.Expr { return gast.A(e, id, mon.Spec{}) }
	// a grammar with 72 distinct failure labels, all listed by one operator (and the upper half by a
	// second, inner one): every one of them is recovered where it is listed
	var manyAlts []*gast.Expr
	var manyLabels, upper []string
	for i := 0; i < 72; i++ {
		lb := fmt.Sprintf("M%02d", i)
		manyLabels = append(manyLabels, lb)
		if i >= 36 {
			upper = append(upper, lb)
		}
		manyAlts = append(manyAlts, gast.S(gast.L(fmt.Sprintf("%c%c", 'a'+i/8, '0'+i%8)), gast.C(gast.L("."), gast.Thr(lb))))
	}
	many := mk(r("S", gast.S(gast.Star(gast.C(gast.Rec(gast.Ref("K"), act(gast.L("?"), 1), manyLabels...), gast.S(gast.L("#"), gast.Rec(gast.Rec(gast.Ref("K"), act(gast.L("!"), 2), upper...), act(gast.L("?"), 3), manyLabels...)))), gast.Star(gast.Dot()))),
		r("K", gast.C(manyAlts...)))
	return append(c14StrataRest(mk, r, act), many)
}

func c14StrataRest(mk func(rules ...*gast.Rule) *gast.Grammar, r func(n string, e *gast.Expr) *gast.Rule, act func(e *gast.Expr, id int) *gast.Expr) []*gast.Grammar {
	return []*gast.Grammar{
		// sibling recovery operators at one depth with different label sets; the later one throws a label
		// that only the earlier sibling and an enclosing catch-all list
		mk(r("Doc", gast.S(gast.Star(gast.Ref("Item")), gast.Star(gast.Dot()))), r("Item", gast.Rec(gast.C(gast.Ref("NumItem"), gast.Ref("NameItem")), act(gast.Star(gast.Cl(&gast.ClassSpec{Chars: []rune(";"), Inverted: true})), 1), "L1", "L2")),
			r("NumItem", gast.Rec(act(gast.S(gast.L("#"), gast.Lab("n", gast.C(gast.Ref("Num"), gast.Thr("L1"))), gast.L(";")), 2), act(gast.Star(gast.Cl(&gast.ClassSpec{Chars: []rune(";"), Inverted: true})), 3), "L1")),
			r("NameItem", gast.Rec(act(gast.S(gast.L("@"), gast.Lab("n", gast.C(gast.Ref("Name"), gast.S(gast.AndE(gast.Cl(gast.Chars("01"))), gast.Thr("L1")), gast.Thr("L2"))), gast.L(";")), 4), act(gast.Star(gast.Cl(&gast.ClassSpec{Chars: []rune(";"), Inverted: true})), 5), "L2")),
			r("Num", act(gast.S(gast.Plus(gast.Cl(gast.Chars("01"))), gast.NotE(gast.Cl(gast.Chars("ab")))), 6)), r("Name", act(gast.S(gast.Plus(gast.Cl(gast.Chars("ab"))), gast.NotE(gast.Cl(gast.Chars("01")))), 7))),
		mk(r("Start", gast.S(gast.Ref("A"), gast.Ref("B"), gast.NotE(gast.Dot()))), r("A", gast.Rec(gast.C(gast.L("a"), gast.Thr("L1")), act(gast.L("x"), 1), "L1")),
			r("B", gast.Rec(gast.C(gast.L("b"), gast.S(gast.L("c"), gast.Thr("L2")), gast.Thr("L1")), act(gast.L("y"), 2), "L2")), r("Outer", gast.S(gast.Rec(gast.S(gast.Ref("A"), gast.Ref("B")), act(gast.L("z"), 3), "L1"), gast.NotE(gast.Dot())))),
		// a recovery expression that can match empty, and a backtracking path that throws the same label
		// again at the same position
		mk(r("S", gast.C(gast.S(gast.L("A:"), gast.Lab("v", gast.Ref("CaseA")), gast.NotE(gast.Dot())), gast.S(gast.L("B:"), gast.Lab("v", gast.Ref("CaseB")), gast.NotE(gast.Dot())), gast.Star(gast.Dot()))),
			r("CaseA", gast.Rec(gast.Ref("Stmt"), gast.Ref("Missing"), "L1")), r("CaseB", gast.Rec(gast.Ref("Inner"), act(gast.L(""), 1), "L1")), r("Inner", gast.Rec(gast.Ref("Stmt"), gast.Ref("Missing"), "L1")),
			r("Stmt", gast.C(act(gast.S(gast.L("l "), gast.Lab("n", gast.Ref("Name")), gast.L("=1")), 2), act(gast.S(gast.L("l "), gast.Lab("n", gast.Ref("Name")), gast.L(";")), 3))),
			r("Name", gast.C(act(gast.Plus(gast.Cl(gast.Chars("ab"))), 4), gast.Thr("L1"))), r("Missing", act(gast.L(""), 5))),
		// a label thrown after its guard has been left (an unguarded sibling, a later repetition item)
		mk(r("S", gast.Star(gast.C(gast.S(gast.L("["), gast.Rec(gast.Ref("X"), act(gast.Dot(), 1), "L1"), gast.L("]")), gast.S(gast.L("("), gast.Ref("X"), gast.L(")")), act(gast.Dot(), 2)))),
			r("X", gast.C(act(gast.Cl(gast.Chars("ab")), 3), gast.Thr("L1")))),
		// two mutually recursive rules, each guarded by an operator for the same label: a throw
		// directly inside the re-entered outer operator belongs to that operator, not to the one
		// entered in between
		mk(r("S", gast.S(gast.Lab("v", gast.Ref("A")), gast.Star(gast.Dot()))),
			r("A", gast.Rec(act(gast.S(gast.L("["), gast.Lab("x", gast.Ref("B")), gast.Lab("d", gast.Ref("Close"))), 1), act(gast.Dot(), 2), "L1")),
			r("B", gast.Rec(gast.C(act(gast.S(gast.L("<"), gast.Lab("x", gast.Ref("A")), gast.L(">")), 3), act(gast.Cl(gast.Chars("ab")), 4)), act(gast.Dot(), 5), "L1")),
			r("Close", gast.C(act(gast.L("]"), 6), gast.Thr("L1")))),
		// innermost first, fall-through to the outer handler when the inner recovery fails
		mk(r("S", gast.Rec(gast.Rec(gast.S(gast.L("a"), gast.Ref("T")), act(gast.L("x"), 1), "L1"), act(gast.Dot(), 2), "L1")),
			r("T", gast.C(gast.L("b"), gast.Thr("L1")))),
		// handler popped on exit: the throw after the operator fails like a mismatch
		mk(r("S", gast.C(gast.S(gast.Rec(gast.L("a"), act(gast.Dot(), 1), "L1"), gast.Thr("L1")), act(gast.Star(gast.Dot()), 2)))),
		// skip-and-continue idiom: throws inside a repetition, recovery expression with an operator of its own
		mk(r("S", gast.S(gast.Ref("List"), gast.NotE(gast.Dot()))),
			r("List", gast.Rec(act(gast.Star(gast.Ref("Item")), 1), gast.Ref("Skip"), "L1")),
			r("Item", gast.C(act(gast.Cl(gast.Chars("ab")), 2), gast.Thr("L1"))),
			r("Skip", gast.Rec(gast.Ref("Digits"), act(gast.Dot(), 3), "L2")),
			r("Digits", gast.C(act(gast.Plus(gast.Cl(gast.Chars("01"))), 4), gast.Thr("L2")))),
		// the recovery expression of an outer operator throws a label handled by an inner operator
		// whose guarded expression is still being evaluated
		mk(r("S", gast.Rec(gast.Ref("Inner"), gast.Ref("RecOuter"), "L1")),
			r("Inner", gast.Rec(gast.Ref("Body"), act(gast.Star(gast.Dot()), 1), "L2")),
			r("Body", gast.C(act(gast.Plus(gast.Cl(gast.Chars("ab"))), 2), act(gast.Lab("v", gast.Thr("L1")), 3))),
			r("RecOuter", act(gast.S(gast.L("!"), gast.Lab("v", gast.Thr("L2"))), 4))),
		// skip-and-rethrow idiom: the recovery expression consumes one rune and throws its own label again until a sync token
		mk(r("S", gast.S(gast.Rec(act(gast.Star(gast.Ref("Item")), 1), gast.Ref("Skip"), "L1"), gast.Star(gast.Dot()))),
			r("Item", gast.C(act(gast.Cl(gast.Chars("ab")), 2), gast.S(gast.NotE(gast.L(";")), gast.Thr("L1")))),
			r("Skip", act(gast.S(gast.NotE(gast.L(";")), gast.Dot(), gast.C(gast.AndE(gast.L(";")), gast.AndE(gast.Cl(gast.Chars("ab"))), gast.Thr("L1"))), 3))),
		mk(r("S", gast.Rec(gast.Rec(gast.S(gast.L("<"), gast.Ref("B"), gast.L(">")), act(gast.S(gast.Cl(gast.Chars("0")), gast.Thr("L1")), 1), "L1"), act(gast.Star(gast.Cl(&gast.ClassSpec{Chars: []rune(">"), Inverted: true})), 2), "L1")),
			r("B", gast.C(gast.Plus(gast.L("a")), gast.Thr("L1")))),
		// a recovery expression that throws a second label: it fails where no operator for that label
		// is in force, and must be tried again when the same throw is reached at the same offset
		// inside an operator that lists it
		mk(r("S", gast.C(gast.S(gast.Ref("A"), gast.L("!")), gast.S(gast.Rec(gast.Ref("A"), act(gast.Dot(), 1), "L2"), gast.L("?")), gast.Star(gast.Dot()))),
			r("A", gast.Rec(act(gast.S(gast.L("<"), gast.Lab("v", gast.C(gast.Cl(gast.Chars("ab")), gast.Thr("L1")))), 2), gast.Ref("R"), "L1")),
			r("R", gast.C(act(gast.L("~"), 3), gast.Thr("L2")))),
		// throw inside repetition and predicate
		mk(r("S", gast.Rec(gast.S(gast.Star(gast.C(gast.L("a"), gast.S(gast.AndE(gast.L("b")), gast.Thr("L2")))), gast.NotE(gast.Thr("L1")), gast.Star(gast.Dot())), act(gast.L("b"), 1), "L1", "L2"))),
		// operators listing three and four labels in orders that are neither sorted nor reversed; every
		// label of the list is thrown somewhere below
		mk(r("S", gast.S(gast.Star(gast.C(gast.Rec(gast.Ref("B"), act(gast.Cl(gast.Chars("xyz!")), 1), "L2", "L3", "L1"), gast.Rec(gast.S(gast.L("#"), gast.Ref("B")), act(gast.Cl(gast.Chars("xyz")), 2), "L3", "L1", "L2"),
			gast.Rec(gast.S(gast.L("%"), gast.Ref("B")), act(gast.Cl(gast.Chars("xyz")), 3), "L2", "L4", "L1", "L3"))), gast.Star(gast.Dot()))),
			r("B", gast.C(gast.L("a"), gast.S(gast.AndE(gast.L("x")), gast.Thr("L1")), gast.S(gast.AndE(gast.L("y")), gast.Thr("L2")), gast.S(gast.AndE(gast.L("z")), gast.Thr("L3")), gast.S(gast.AndE(gast.L("!")), gast.Thr("L4"))))),
		// a throw in a rule of a reference cycle (V -> Es -> V), an operator for its label at the top and
		// another one inside the cycle whose guarded expression reaches the throw only through the other
		// rule of the cycle: the innermost operator in force handles it, whichever was written first
		mk(r("S", gast.S(gast.Rec(gast.Ref("V"), act(gast.Star(gast.Dot()), 1), "L1"), gast.NotE(gast.Dot()))),
			r("V", gast.C(act(gast.S(gast.L("["), gast.Opt(gast.Rec(gast.Ref("Es"), act(gast.Star(gast.Cl(&gast.ClassSpec{Chars: []rune("],"), Inverted: true})), 2), "L1")), gast.L("]")), 3),
				act(gast.Plus(gast.Cl(&gast.ClassSpec{Ranges: [][2]rune{{'0', '9'}}})), 4), gast.Thr("L1"))),
			r("Es", gast.S(gast.Ref("V"), gast.Star(gast.S(gast.L(","), gast.Ref("V")))))),
		mk(r("S", gast.S(gast.Rec(gast.Ref("A"), act(gast.Star(gast.Dot()), 1), "L1", "L2"), gast.Star(gast.Dot()))),
			r("A", gast.C(gast.S(gast.L("("), gast.Ref("B"), gast.L(")")), gast.S(gast.L("a"), gast.C(gast.L("!"), gast.Thr("L2"))), gast.Thr("L1"))),
			r("B", gast.Rec(gast.S(gast.Ref("A"), gast.Star(gast.S(gast.L(";"), gast.Ref("A")))), act(gast.Star(gast.Cl(&gast.ClassSpec{Chars: []rune(");"), Inverted: true})), 2), "L2", "L1"))),
	}
}

func c11ImpureStrata() []*gast.Grammar {
	mk := func(rules ...*gast.Rule) *gast.Grammar { return &gast.Grammar{Rules: rules} }
	r := func(n string, e *gast.Expr) *gast.Rule { return &gast.Rule{Name: n, Expr: e} }
	return []*gast.Grammar{
		// a block that runs several times at one offset (alternatives with a common prefix) and reports
		// another text each time (it depends on the globalStore): each is a different error and stays
		mk(r("S", gast.S(gast.C(gast.S(gast.Ref("A"), gast.L("!")), gast.S(gast.Ref("A"), gast.L("?")), gast.Ref("A")), gast.Star(gast.Dot()))),
			r("A", gast.A(gast.Plus(gast.Cl(gast.Chars("ab"))), 1, mon.Spec{E: 8, G: true}))),
		mk(r("S", gast.Star(gast.C(gast.S(gast.Ref("P"), gast.L("x")), gast.S(gast.Ref("P"), gast.L("y")), gast.Dot()))),
			r("P", gast.S(gast.AndC(1, mon.Spec{E: 8, G: true}), gast.A(gast.L("a"), 2, mon.Spec{E: 8, G: true}), gast.St(3, mon.Spec{S: 1, E: 8, G: true})))),
	}
}

// C17: invalid UTF-8.
func C17(c *Ctx) {
	c.Rule("random grammars with U+FFFD in literals and classes; inputs with stray continuation bytes, truncated 2/3/4-byte sequences (also at EOF), overlongs, surrogates, 0xFE/0xFF spliced in at every position; both AllowInvalidUTF8 settings; " +
		"oracle = the model decoding an invalid byte as a one-byte U+FFFD that never equals EOF: value, consumed prefix, block trace (text = original bytes, byte offsets), the set of positions of 'invalid encoding' errors (= invalid bytes the parse advanced onto; none when allowed) and the whole error list. " +
		"distinct_nontrivial = distinct (grammar, input, mode) where the parse advanced onto >=1 invalid byte")
	p := pegProfile()
	p.Alphabets = [][]rune{[]rune("a�b"), []rune("ab"), []rune("a�\n"), []rune("é�x"), []rune("ÿþ\u0080¿Ãa")}
	p.W[gast.Any] = 9
	p.W[gast.Action] = 12
	p.PInverted = 30
	cfg := &MCConfig{
		Profile: p, Grammars: c17Strata(), NGrammars: c.N(100, 1200),
		FlagSets:  [][]string{{}, {"-optimize-parser"}, {"-optimize-basic-latin"}},
		InputsPer: c.N(140, 300), ExhaustLimit: 0, Invalid: true,
		OptSets:    []OptSet{{Name: "default"}, {Name: "allow", AllowInvalid: true}, {Name: "reader", Reader: true}, {Name: "reader-allow", Reader: true, AllowInvalid: true}, {Name: "debug", Debug: true}, {Name: "memoize-debug", Memo: true, Debug: true}},
		Compare:    CmpVal | CmpEnd | CmpTrace | CmpInvalid | CmpErrs | CmpOK | CmpInput,
		NonTrivial: func(m *ref.Result) bool { return len(m.InvalidAt) >= 1 },
		StalePS:    "F02-stale-pred-pos",
		ExtraInputs: func(g *gast.Grammar, r *rand.Rand) [][]byte {
			var out [][]byte
			for _, s := range gast.InvalidSeqs {
				out = append(out, s, append([]byte("a"), s...), append(append([]byte("a"), s...), 'b'))
			}
			// inputs that begin like a byte order mark of another encoding (they are just two invalid bytes)
			// or with the UTF-8 one (a valid rune)
			for _, pre := range []string{"\xff\xfe", "\xfe\xff", "\xef\xbb\xbf", "\xff\xfe\x00\x00"} {
				out = append(out, []byte(pre), []byte(pre+"a"), []byte(pre+"ab\xff"), []byte(pre+"a\x00b\x00"))
			}
			if strings.HasPrefix(g.Rules[0].Name, "Garbage") {
				for _, n := range []int{130, 400, 1100, 3000} {
					var b []byte
					for i := 0; i < n; i++ {
						b = append(b, gast.InvalidSeqs[r.Intn(len(gast.InvalidSeqs))]...)
						if i%7 == 3 {
							b = append(b, "ab\n"[i%3])
						}
					}
					out = append(out, b)
				}
			}
			return out
		},
	}
	c.ModelCheck(cfg)
	c.lrPass(17, c.N(40, 400), CmpVal|CmpEnd|CmpErrs|CmpOK|CmpInput, []OptSet{{Name: "default"}, {Name: "allow", AllowInvalid: true}}, true, cfg.NonTrivial)
}

func c17Strata() []*gast.Grammar {
	mk := func(rules ...*gast.Rule) *gast.Grammar { return &gast.Grammar{Rules: rules} }
	r := func(n string, e *gast.Expr) *gast.Rule { return &gast.Rule{Name: n, Expr: e} }
	return []*gast.Grammar{
		mk(r("S", gast.A(gast.S(gast.Star(gast.C(gast.L("�"), gast.Cl(gast.Chars("a�")), gast.A(gast.Dot(), 2, mon.Spec{R: 2}))), gast.NotE(gast.Dot())), 1, mon.Spec{}))),
		mk(r("S", gast.S(gast.L("a�b"), gast.Star(gast.Cl(&gast.ClassSpec{Chars: []rune("�"), Inverted: true})), gast.Star(gast.Dot())))),
		// classes whose members are the code points U+0080..U+00FF: an invalid byte is U+FFFD, never the
		// code point that happens to equal its value
		mk(r("S", gast.S(gast.Star(gast.C(gast.A(gast.Cl(&gast.ClassSpec{Ranges: [][2]rune{{0x80, 0xff}}}), 1, mon.Spec{R: 2}), gast.A(gast.Cl(&gast.ClassSpec{Chars: []rune("é\u0080ÿ"), Inverted: true}), 2, mon.Spec{R: 2}), gast.Dot())), gast.NotE(gast.Dot())))),
		mk(r("S", gast.S(gast.Star(gast.C(gast.Cl(&gast.ClassSpec{Chars: []rune("Ã¿þ")}), gast.L("ÿ"), gast.A(gast.Cl(&gast.ClassSpec{Chars: []rune("a"), Inverted: true}), 1, mon.Spec{}))), gast.Star(gast.Dot())))),
		// damaged / binary input of some length: every invalid byte the parse advances onto is reported,
		// the first as well as the three-thousandth (rule names Garbage*: see the extra inputs of C17)
		mk(r("GarbageLinear", gast.S(gast.Star(gast.C(gast.Plus(gast.Cl(&gast.ClassSpec{Ranges: [][2]rune{{'a', 'z'}}})), gast.Dot())), gast.NotE(gast.Dot())))),
		mk(r("GarbageBacktrack", gast.S(gast.Star(gast.C(gast.S(gast.Dot(), gast.L("1")), gast.S(gast.Dot(), gast.L("2")), gast.S(gast.Dot(), gast.L("3")), gast.S(gast.Dot(), gast.L("4")), gast.S(gast.Dot(), gast.L("5")), gast.S(gast.Dot(), gast.L("6")),
			gast.S(gast.Cl(&gast.ClassSpec{Chars: []rune("�x")}), gast.L("7")), gast.Dot())), gast.NotE(gast.Dot())))),
	}
}

package checks

import (
	"fmt"
	"math/rand"
	"strings"
	"time"
)

// C20: the bootstrap chain agrees with itself and with the checked-in artifacts.
func C20(c *Ctx) {
	c.Rule("(a) grammar texts drawn from the syntax subset of the hand-written bootstrap front-end (rules, display names, choice, action, sequence, labels, & !, ? * +, three literal quotings with every escape form and i, classes with escapes, ranges, \\pX and \\p{..}, ., rule references, groups, an initializer; one rule per line or ';', no comments, code blocks with balanced braces) are parsed by both front-ends of the tree (hook modes astdump and astdump-bootstrap of a -tags verif build); oracle: structurally identical ASTs (positions and display-name quoting aside). " +
		"(b) every checked-in generated artifact (2 static-code tables, bootstrap_pigeon.go, pigeon.go, and every parser the Makefile produces, read from the Makefile at run time) is regenerated stage by stage in a scratch copy with tools built from the copy; oracle: byte equality with the tree, and pigeon -nolint grammar/pigeon.peg == bootstrap-pigeon grammar/pigeon.peg (three-stage fixpoint). Part (b) enumerates the artifact set completely. " +
		"distinct_nontrivial = distinct texts of part (a) accepted by both front-ends with >=6 AST nodes, plus the artifacts of part (b)")
	// ---- (b) artifacts ----
	rg, err := Regenerate(c.W)
	if err != nil {
		c.Report(&Violation{Class: "C20/regen-build", Summary: "the bootstrap chain cannot be rebuilt from the tree: " + err.Error()})
	}
	if rg != nil {
		for _, a := range rg.Artifacts {
			c.Eval(1)
			c.Distinct("artifact:" + a.Path)
			c.CovSet("artifact_stage", a.Stage)
		}
		for p, e := range rg.Errors {
			c.Report(&Violation{Class: "C20/regen-error:" + p, Summary: fmt.Sprintf("regenerating %s failed: %s", p, trunc(e))})
		}
		for _, p := range rg.Differ {
			c.Report(&Violation{Class: "C20/artifact:" + p, Summary: fmt.Sprintf("the checked-in generated file %s differs from what regenerating it from its source with the documented flags produces (tools built from the current tree)", p),
				Extra: map[string]any{"artifact": p}})
		}
		if rg.PigeonSelf != "" {
			c.Report(&Violation{Class: "C20/fixpoint", Summary: rg.PigeonSelf})
		}
		c.Cov("artifacts_regenerated", len(rg.Artifacts))
		c.Cov("artifacts_differing", len(rg.Differ))
		c.Exhaustive()
		var names []string
		for _, a := range rg.Artifacts {
			names = append(names, a.Path+" <= "+a.Src+" "+strings.Join(a.Flags, " "))
		}
		c.Sample(map[string]any{"artifacts": names})
	}
	// ---- (a) front-ends ----
	hook, err := c.W.Hooked()
	if err != nil {
		c.Broken(err.Error())
		return
	}
	ucl := c03UClasses(c, hook)
	rng := rand.New(rand.NewSource(c.Seed*173 + 20))
	n := c.N(600, 6000)
	type job struct {
		text  string
		nodes int
	}
	var jobs []job
	for i := 0; i < n; i++ {
		g := &c03gen{r: rng, ucl: ucl, subset: true}
		nr := 1 + rng.Intn(4)
		perm := rng.Perm(len(c03Idents))
		for k := 0; k < nr; k++ {
			g.names = append(g.names, c03Idents[perm[k]])
		}
		var rules []*arule
		nodes := 0
		for k := 0; k < nr; k++ {
			ru := &arule{name: g.names[k], expr: g.expr(1 + rng.Intn(4))}
			if rng.Intn(3) == 0 {
				ru.display = []string{"friendly name", "q\"uote", "tab\there", "ünï", "100% %d"}[rng.Intn(5)]
			}
			walkA(ru.expr, func(*anode) { nodes++ })
			rules = append(rules, ru)
		}
		init := ""
		if rng.Intn(2) == 0 {
			init = "{\npackage p\n\nfunc h() { if true { return } }\n}"
		}
		s := &speller{r: rand.New(rand.NewSource(rng.Int63())), subset: true}
		s.grammar(init, rules)
		text := s.sb.String()
		if i%5 == 4 {
			// the same grammar saved with CRLF line endings
			text = strings.ReplaceAll(strings.ReplaceAll(text, "\r\n", "\n"), "\n", "\r\n")
		}
		jobs = append(jobs, job{text, nodes})
	}
	// fixed texts of the subset that the drawing speller never writes: tokens that touch each other
	for _, t := range []string{
		"A <- \"from\"in B\nin <- \"x\"\nn <- \"y\"\nB <- [0-9]id 'k'ix\nid <- \"d\"\nd <- \"e\"\nix <- \"q\"\nx <- \"z\"\n",
		"A <- \"a\"i\"b\"[c]i[d]'e'i.B*C+D?\nB <- \"x\"\nC <- \"y\"\nD <- \"z\"\n",
		"A<-b:\"a\"c:B&C!D(B/C)\nB<-\"x\"{return nil,nil}\nC<-\"y\";D<-\"z\"\n",
	} {
		jobs = append(jobs, job{t, 8})
	}
	rejectedBoot, rejectedBoth, compared := 0, 0, 0
	parallel(len(jobs), 16, func(i int) {
		text := []byte(jobs[i].text)
		a := c.W.RunPigeon(hook, text, 30*time.Second, []string{"PIGEON_VERIF_MODE=astdump"})
		b := c.W.RunPigeon(hook, text, 30*time.Second, []string{"PIGEON_VERIF_MODE=astdump-bootstrap"})
		c.Eval(1)
		c.mu.Lock()
		defer c.mu.Unlock()
		if a.Exit != 0 && b.Exit != 0 {
			rejectedBoth++
			return
		}
		if b.Exit != 0 {
			// the generator draws from the subset as pinned against the hand-written parser (no text
			// of it is rejected on the pinned tree, at any seed or tier): a rejection is a divergence of
			// the two front-ends, not a generator problem
			rejectedBoot++
			c.mu.Unlock()
			c.Report(&Violation{Class: "C20/bootstrap-rejects", Summary: fmt.Sprintf("the hand-written bootstrap front-end rejects a text of its own syntax subset that the generated front-end accepts: %s; text %q", firstLine(string(b.Stdout)), jobs[i].text), Grammar: jobs[i].text})
			c.mu.Lock()
			return
		}
		if a.Exit != 0 {
			c.mu.Unlock()
			c.Report(&Violation{Class: "C20/pigeon-rejects", Summary: fmt.Sprintf("the bootstrap front-end accepts a text of the subset that the generated front-end rejects: %s; text %q", firstLine(string(a.Stdout)), jobs[i].text), Grammar: jobs[i].text})
			c.mu.Lock()
			return
		}
		compared++
		if jobs[i].nodes >= 6 {
			c.distinct["fe:"+jobs[i].text] = true
		}
		da := stripDump(strings.Split(strings.TrimRight(string(a.Stdout), "\n"), "\n"))
		db := stripDump(strings.Split(strings.TrimRight(string(b.Stdout), "\n"), "\n"))
		if d := firstLineDiff(da, db); d != "" {
			c.mu.Unlock()
			c.Report(&Violation{Class: "C20/frontends-differ", Summary: fmt.Sprintf("the two front-ends build different ASTs (pigeon vs bootstrap): %s; text %q", d, jobs[i].text), Grammar: jobs[i].text, Want: da, Got: db})
			c.mu.Lock()
		}
	})
	c.Cov("frontend_texts", len(jobs))
	c.Cov("frontend_asts_compared", compared)
	c.Cov("rejected_by_bootstrap_only", rejectedBoot)
	c.Cov("rejected_by_both", rejectedBoth)
	if len(jobs) > 0 {
		c.Sample(map[string]any{"subset_text": jobs[0].text})
	}
	if (rejectedBoot+rejectedBoth)*10 > len(jobs) {
		c.Broken(fmt.Sprintf("%d of %d subset texts are rejected: the subset generator does not match the bootstrap front-end", rejectedBoot+rejectedBoth, len(jobs)))
	}
}

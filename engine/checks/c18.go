package checks

import (
	"encoding/json"
	"fmt"
	"math/rand"
	"regexp"
	"strings"

	"verif/engine/gast"
	"verif/engine/mon"
)

var raceFrame = regexp.MustCompile(`(?m)^  (\S+)\(`)

// raceSig = the outermost... rather the innermost named frames of the two stacks, line numbers stripped.
func raceSig(block string) string {
	parts := strings.Split(block, "\n\n")
	var sig []string
	for _, p := range parts {
		if !strings.Contains(p, " at 0x") && !strings.Contains(p, "by goroutine") {
			continue
		}
		if m := raceFrame.FindStringSubmatch(p); m != nil {
			sig = append(sig, m[1])
		}
		if len(sig) == 2 {
			break
		}
	}
	return strings.Join(sig, " <-> ")
}

// C18: concurrent parses with one generated parser are isolated.
func C18(c *Ctx) {
	c.Rule("race-instrumented (-race) batch of generated parsers (grammars with and without state blocks incl. in-place mutated Cloner values, erroring/panicking blocks, left recursion; plain, -optimize-parser, -support-left-recursion); " +
		"a sequential baseline records the result of every (package, input, options) case; then G goroutines (several G x GOMAXPROCS configurations) hammer the same packages with different cases while code blocks yield / sleep a few microseconds (the natural suspension points between the runtime's clone/restore sections) and the GC is forced periodically to cycle the state pool; " +
		"oracle: every concurrent result (value, errors, full block trace with state snapshots, final state) equals its solo result, and the race detector log (halt_on_error=0) contains no report besides the deliberate canary race, which must be present. " +
		"distinct_nontrivial = distinct cases executed concurrently; evidence lists measured overlap, state-map identities seen by >=2 goroutines, (package, option) pairs in flight together")
	c.Assume("schedules are sampled: absence of a report is not absence of a race; Debug(true) runs with the process-wide os.Stdout pointed at the null device (the trace itself is not compared)")
	rng := rand.New(rand.NewSource(c.Seed*211 + 18))
	var gs []*gast.Grammar
	var lr []bool
	var flags [][]string
	sp, pp, ep := stateProfile(), pegProfile(), errorProfile()
	add := func(g *gast.Grammar, isLR bool, f []string) {
		gs = append(gs, g)
		lr = append(lr, isLR)
		flags = append(flags, f)
	}
	nEach := c.N(2, 6)
	for i := 0; i < nEach; i++ {
		add(gast.Generate(rng, sp), false, nil)
		add(gast.Generate(rng, sp), false, []string{"-optimize-parser"})
		add(gast.Generate(rng, pp), false, nil)
		add(gast.Generate(rng, ep), false, nil)
		add(genLR(rng, i%2 == 1), true, []string{"-support-left-recursion"})
		add(genLR(rng, i%2 == 0), true, []string{"-support-left-recursion", "-optimize-parser"})
	}
	for _, g := range c05Strata() {
		add(g, false, nil)
	}
	// labelled failures: recovery operators with one and several labels, throws from called rules
	for i, g := range c14Strata() {
		if i%3 == 0 {
			add(g, false, nil)
		} else if i%3 == 1 {
			add(g, false, []string{"-optimize-parser"})
		}
	}
	for i := 0; i < nEach; i++ {
		add(gast.Generate(rng, throwProfile()), false, nil)
	}
	// Unicode classes on non-Latin-1 input (range tables shared by all parses)
	ucl := func(n ...string) *gast.Expr { return gast.Cl(&gast.ClassSpec{UClasses: n}) }
	words := &gast.Grammar{Rules: []*gast.Rule{
		{Name: "S", Expr: gast.A(gast.Star(gast.C(gast.Ref("U"), gast.Ref("L"), gast.Ref("O"))), 1, mon.Spec{})},
		{Name: "U", Expr: gast.A(gast.Plus(ucl("Lu")), 2, mon.Spec{R: 2})},
		{Name: "L", Expr: gast.A(gast.Plus(ucl("Ll", "Greek")), 3, mon.Spec{R: 2})},
		{Name: "O", Expr: gast.A(gast.Plus(gast.C(ucl("Nd", "Cyrillic"), gast.Cl(&gast.ClassSpec{UClasses: []string{"L"}, Inverted: true}))), 4, mon.Spec{R: 2})},
	}}
	// deep nesting: Debug(true) traces are indented by depth
	deep := &gast.Grammar{Rules: []*gast.Rule{
		{Name: "S", Expr: gast.A(gast.C(gast.S(gast.L("("), gast.Lab("a", gast.Ref("S")), gast.L(")")), gast.S(gast.L("["), gast.Lab("a", gast.Ref("S")), gast.L("]")), gast.L("a")), 1, mon.Spec{})},
	}}
	// code blocks that write the globalStore through a helper (no block spells the field) and return what
	// it holds; calls without any GlobalStore option are in the mix (option-table prefixes)
	gstore := &gast.Grammar{IndirectGlobal: true, Rules: []*gast.Rule{
		{Name: "S", Expr: gast.A(gast.Star(gast.C(gast.Ref("W"), gast.Ref("N"), gast.A(gast.Dot(), 4, mon.Spec{R: 5, G: true}))), 1, mon.Spec{R: 5, G: true})},
		{Name: "W", Expr: gast.A(gast.Plus(gast.Cl(gast.Chars("ab"))), 2, mon.Spec{R: 5, G: true})},
		{Name: "N", Expr: gast.S(gast.AndC(5, mon.Spec{G: true}), gast.A(gast.Plus(gast.Cl(gast.Chars("01"))), 3, mon.Spec{R: 0, G: true}))},
	}}
	add(gstore, false, []string{"-optimize-parser"})
	add(gstore.Clone(), false, nil)
	add(gstore.Clone(), false, []string{"-optimize-parser", "-optimize-basic-latin"})
	add(deep, false, nil)
	add(words, false, nil)
	add(words.Clone(), false, []string{"-optimize-parser"})
	for _, p := range []*gast.Profile{sp, pp} {
		p.PUClass = 45
		p.Alphabets = [][]rune{[]rune("aΩя世"), []rune("bДλ\n"), []rune("ab")}
	}
	for i := 0; i < nEach; i++ {
		add(gast.Generate(rng, sp), false, nil)
		add(gast.Generate(rng, pp), false, []string{"-optimize-basic-latin"})
	}
	// one Built per distinct flag set (BuildUnits applies the same flag sets to all grammars)
	type grp struct {
		flags []string
		idx   []int
	}
	groups := map[string]*grp{}
	for i := range gs {
		k := strings.Join(flags[i], " ")
		if groups[k] == nil {
			groups[k] = &grp{flags: flags[i]}
		}
		groups[k].idx = append(groups[k].idx, i)
	}
	// all units must live in ONE binary so that they run concurrently: build one batch by hand
	var allG []*gast.Grammar
	for _, g := range gs {
		g.Finalize()
		allG = append(allG, g)
	}
	var units []*Unit
	var builts []*Built
	base := 0
	for _, gr := range groups {
		var sub []*gast.Grammar
		for _, i := range gr.idx {
			sub = append(sub, gs[i])
		}
		idx := gr.idx
		bt := c.buildUnitsBase(sub, [][]string{gr.flags}, true, func(k int) bool { return lr[idx[k]] }, base)
		base += len(sub)
		builts = append(builts, bt)
		units = append(units, bt.Units...)
	}
	defer func() {
		for _, b := range builts {
			b.Close()
		}
	}()
	totalParses, totalCases := int64(0), 0
	for bi, bt := range builts {
		var cases []*mon.Case
		for _, u := range bt.Units {
			if !u.OK {
				c.CovSet("units_not_built", shortFail(u.Fail))
				continue
			}
			var ins [][]byte
			if u.IsLR {
				ins = lrInputs(u.G, rng, 25)
			} else {
				ins = c.inputsFor(u.G, rng, 25, 10, false)
			}
			if u.G.Rule("U") != nil && u.G.Rule("O") != nil {
				for _, w := range []string{"ΑΒΓ αβγ 123", "ПРИВЕТ мир", "Hello Wörld ǅ", "世界 ΩΩ ωω", "ЖЖжжЖЖ", "αБγДε", "ABC abc", "ÀÉÎ õü"} {
					ins = append(ins, []byte(w), []byte(w+w))
				}
			}
			if u.G == deep {
				for _, d := range []int{9, 11, 12, 14, 17, 22, 25, 30, 36} {
					ins = append(ins, []byte(strings.Repeat("(", d)+"a"+strings.Repeat(")", d)), []byte(strings.Repeat("[(", d/2)+"a"+strings.Repeat(")]", d/2)))
				}
			}
			for ii, in := range ins {
				if len(in) > 120 {
					continue
				}
				o := ii % 5
				cs := &mon.Case{ID: fmt.Sprintf("%s/%d", u.Pkg, ii), Pkg: u.Pkg, Input: in, MaxExpr: 200000, MaxEvents: 300}
				if !u.HasFlag("-optimize-parser") {
					cs.Memo = o == 1
					cs.Stats = o == 2
					cs.DebugQuiet = ii%7 == 3 && len(in) < 40 || len(in) > 15 && (in[0] == '(' || in[0] == '[') && u.G == deep // Debug(true): the trace goes to the (nulled) process-wide stdout
				}
				cs.AllowInvalid = o == 3
				cs.NoRecover = o == 4
				if u.IsLR && ii%4 == 2 && len(u.G.Rules) > 2 {
					// calls that enter the grammar through other rules, members of left-recursive cycles
					// included (whatever an entrypoint needs set up must not be written into the shared grammar)
					cs.Entry = u.G.Rules[1+ii%(len(u.G.Rules)-1)].Name
				}
				if ii%6 == 5 {
					// budgets that run out, different ones in calls that overlap (with Recover(false) the
					// budget panic reaches the caller)
					cs.MaxExpr = uint64(3 + (ii*7)%60)
				}
				cs.SharedOpts = ii%2 == 0 // option values shared by all calls
				cs.Reader = ii%3 == 1 // through ParseReader (the input buffer is then the runtime's, not the caller's)
				if u.G.UsesState || !u.HasFlag("-optimize-parser") {
					cs.Init = []int{0, 4, 8, 0, 5}[(ii+o)%5] // different key sets per call (InitState)
				}
				cases = append(cases, cs)
				if cs.DebugQuiet {
					c.CovAdd("debug_cases", 1)
					if len(in) > 15 {
						c.CovAdd("deep_debug_cases", 1)
					}
				}
				if ii%5 == 2 {
					// calls that end before the first rule is entered (a rule name the grammar does not have),
					// with a state store prepared through InitState: whatever such a call took or set up must
					// not reach the calls that overlap with it or follow it
					bad := &mon.Case{ID: fmt.Sprintf("%s/%d/e", u.Pkg, ii), Pkg: u.Pkg, Input: in, Entry: "VerifNoSuchRule", MaxExpr: 200000, MaxEvents: 300, Memo: cs.Memo, Stats: cs.Stats}
					if u.G.UsesState || !u.HasFlag("-optimize-parser") {
						bad.Init = 8
					}
					cases = append(cases, bad)
					c.CovAdd("calls_with_unknown_entrypoint", 1)
				}
				if ii%4 == 1 {
					// prefixes of one shared option table (different lengths in different goroutines)
					cases = append(cases, &mon.Case{ID: fmt.Sprintf("%s/%d/t", u.Pkg, ii), Pkg: u.Pkg, Input: in, TableOpts: 3 + ii%5})
				}
			}
		}
		if len(cases) == 0 || len(bt.batches) == 0 || bt.batches[0] == nil {
			continue
		}
		totalCases += len(cases)
		type conf struct{ g, procs, iters int }
		confs := []conf{{8, 16, c.N(300, 4000)}, {32, 2, c.N(80, 1000)}}
		if !c.Quick() {
			confs = append(confs, conf{64, 16, 1500}, conf{2, 2, 20000})
		}
		for ci, cf := range confs {
			// units of one Built may be spread over several batch binaries; run each binary with its own cases
			for _, b := range bt.batches {
				if b == nil {
					continue
				}
				var mine []*mon.Case
				inB := map[string]bool{}
				for _, p := range b.Pkgs {
					inB[p.Name] = true
				}
				for _, cs := range cases {
					if inB[cs.Pkg] {
						mine = append(mine, cs)
					}
				}
				if len(mine) == 0 {
					continue
				}
				canary := bi == 0 && ci == 0
				sumB, raceLog, err := b.RunConc(mine, cf.g, cf.iters, canary, cf.procs)
				if err != nil {
					if strings.Contains(err.Error(), "fatal error:") || strings.Contains(err.Error(), "panic:") || strings.Contains(err.Error(), "concurrent map") {
						c.Report(&Violation{Class: "C18/crash", Summary: fmt.Sprintf("the process crashes while %d goroutines call Parse concurrently (GOMAXPROCS=%d): %s", cf.g, cf.procs, trunc(err.Error()))})
					} else {
						c.Broken(err.Error())
					}
					continue
				}
				var sum mon.ConcSummary
				if json.Unmarshal(sumB, &sum) != nil {
					c.Broken("cannot read the concurrent summary")
					continue
				}
				c.Eval(int(sum.Parses))
				totalParses += sum.Parses
				c.CovAdd("parses_started_while_another_ran", int(sum.OverlapParses))
				c.CovAdd("state_map_ids_seen_by_2plus_goroutines", sum.SharedMapIDs)
				c.CovAdd("state_map_ids", sum.StateMapIDs)
				c.CovAdd("distinct_pairs_in_flight_together", sum.CoFlightPairs)
				c.CovSet("configurations", fmt.Sprintf("G=%d GOMAXPROCS=%d iters=%d max_in_flight=%d", cf.g, cf.procs, cf.iters, sum.MaxInFlight))
				for _, cs := range mine {
					c.Distinct(cs.ID + cs.Pkg + string(cs.Input))
				}
				c.CovAdd("cases_through_parsereader", sum.ReaderCases)
				if sum.Unstable > 0 {
					c.Report(&Violation{Class: "C18/result-changed-later", Summary: fmt.Sprintf("%d results returned by ParseReader changed when ParseReader was called again (the value is not the caller's own): %s", sum.Unstable, strings.Join(sum.UnstableSample, " || ")),
						Extra: map[string]any{"summary": sum}})
				}
				if sum.Touched > 0 {
					c.Report(&Violation{Class: "C18/caller-buffer-written", Summary: fmt.Sprintf("%d parses wrote to the caller's buffer (the input bytes or the spare capacity behind them, which other goroutines may be reading): %s", sum.Touched, strings.Join(sum.TouchedSample, " || ")),
						Extra: map[string]any{"summary": sum}})
				}
				if sum.Mismatches > 0 {
					c.Report(&Violation{Class: "C18/result-differs", Summary: fmt.Sprintf("%d of %d concurrent parses (G=%d, GOMAXPROCS=%d) returned something else than when run alone: %s", sum.Mismatches, sum.Parses, cf.g, cf.procs, strings.Join(sum.MismatchSample, " || ")),
						Extra: map[string]any{"summary": sum}})
				}
				blocks := strings.Split(raceLog, "==================")
				sawCanary := false
				n := 0
				for _, bl := range blocks {
					if !strings.Contains(bl, "WARNING: DATA RACE") {
						continue
					}
					if strings.Contains(bl, "canaryBump") {
						sawCanary = true
						continue
					}
					n++
					c.Report(&Violation{Class: "C18/race:" + raceSig(bl), Summary: fmt.Sprintf("the race detector reports a data race during concurrent Parse calls (G=%d): %s", cf.g, raceSig(bl)), Extra: map[string]any{"report": trunc(bl)}})
				}
				c.CovAdd("race_reports", n)
				if canary {
					if !sawCanary {
						c.Broken("the deliberate canary race was not reported: the race detector is not live in this build")
					} else {
						c.Cov("canary_race_reported", true)
					}
				}
			}
		}
	}
	c.Cov("cases", totalCases)
	c.Cov("concurrent_parses", totalParses)
	if len(units) > 0 {
		c.Sample(map[string]any{"grammar": gast.Short(units[0].G), "flags": units[0].FlagID})
	}
}

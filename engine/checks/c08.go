package checks

import (
	"fmt"
	"math/rand"
	"strings"
	"sync"

	"verif/engine/batch"
	"verif/engine/gast"
	"verif/engine/mon"
	"verif/engine/ref"
)

// genLR draws an expr/term/factor style grammar of 1-3 left-recursive levels in the form the
// property names: A <- A a1 / ... / A an / b1 / ... / bm with non-nullable ai whose first
// terminals are pairwise distinct operators; with indirect, one level goes through a second rule
// (A <- B x / y; B <- A z / w).
func genLR(r *rand.Rand, indirect bool) *gast.Grammar {
	id := 0
	nid := func() int { id++; return id }
	ops := strings.Split("+ - * / ^ % ~ = < >", " ")
	r.Shuffle(len(ops), func(i, j int) { ops[i], ops[j] = ops[j], ops[i] })
	nextOp := func() string { o := ops[0]; ops = ops[1:]; return o }
	useState := r.Intn(2) == 0
	actSpec := func() mon.Spec {
		return mon.Spec{R: pick(r, 0, 0, 0, 3, 1), E: pick(r, 0, 0, 0, 1, 2, 3), G: r.Intn(3) == 0, Scr: useState && r.Intn(4) == 0}
	}
	levels := 1 + r.Intn(3)
	g := &gast.Grammar{}
	// lower levels are named so that they sort after the top rule (E2, E3, M..) or before it (D2, D3,
	// D2m ..): analyses that pick rules by name must not depend on which. The intermediate rule of a
	// two-rule cycle always sorts after the rule through which the cycle is entered, so that pigeon makes
	// the entered rule the leader (a cycle entered through a non-leader is known finding F24)
	flip := indirect && r.Intn(2) == 0
	name := func(l int) string {
		if flip && l > 1 {
			return fmt.Sprintf("D%d", l)
		}
		return fmt.Sprintf("E%d", l)
	}
	decor := func(items []*gast.Expr) []*gast.Expr {
		// sprinkle predicates / state blocks between operator and operand
		out := []*gast.Expr{}
		for i, it := range items {
			out = append(out, it)
			if i == 1 {
				switch r.Intn(7) {
				case 0:
					out = append(out, gast.AndC(nid(), mon.Spec{B: pick(r, 0, 0, 4)}))
				case 1:
					if useState {
						out = append(out, gast.St(nid(), mon.Spec{S: 1 + r.Intn(31), E: pick(r, 0, 0, 1)}))
					}
				case 2:
					out = append(out, gast.NotE(gast.L("!")))
				}
			}
		}
		return out
	}
	var startExtra []*gast.Expr
	for l := 1; l <= levels; l++ {
		self := name(l)
		next := name(l + 1)
		if l == levels {
			next = "At"
		}
		var alts []*gast.Expr
		nrec := 1 + r.Intn(3)
		if indirect && (l == 1 || r.Intn(2) == 0) {
			// E1 <- M1 x {..} / E2 ; M1 <- E1 op {..} / w   (also on lower levels: several separate cycles)
			op, x, w := nextOp(), nextOp(), nextOp()
			mid := fmt.Sprintf("M%d", l)
			if flip && l > 1 {
				mid = fmt.Sprintf("D%dm", l)
			}
			a1 := gast.A(gast.S(decor([]*gast.Expr{gast.Lab("a", gast.Ref(mid)), gast.L(x), gast.Lab("b", gast.Ref(next))})...), nid(), actSpec())
			alts = append(alts, a1, gast.Ref(next))
			g.Rules = append(g.Rules, &gast.Rule{Name: self, Expr: gast.C(alts...)})
			m1 := gast.A(gast.S(gast.Lab("a", gast.Ref(self)), gast.L(op)), nid(), actSpec())
			m2 := gast.A(gast.S(gast.L(w), gast.Lab("b", gast.Ref(next))), nid(), actSpec())
			g.Rules = append(g.Rules, &gast.Rule{Name: mid, Expr: gast.C(m1, m2)})
			continue
		}
		for k := 0; k < nrec; k++ {
			op := nextOp()
			items := []*gast.Expr{gast.Lab("a", gast.Ref(self)), gast.L(op), gast.Lab("b", gast.Ref(next))}
			if r.Intn(5) == 0 {
				items[0] = gast.Ref(self) // unlabelled recursive reference
			}
			seq := gast.S(decor(items)...)
			if r.Intn(5) == 0 {
				// a twin alternative with the same recursive prefix that needs one more terminal: when
				// it fails, everything after the recursive reference is evaluated a second time
				twin := gast.S(append(seq.Clone().Subs, gast.L("!"))...)
				gast.Walk(twin, func(e *gast.Expr) {
					if e.Code != nil {
						e.Code.ID = nid()
					}
				})
				alts = append(alts, gast.A(twin, nid(), actSpec()))
			}
			if r.Intn(6) == 0 {
				alts = append(alts, seq) // no action: structural left-nested value
			} else {
				alts = append(alts, gast.A(seq, nid(), actSpec()))
			}
		}
		alts = append(alts, gast.Ref(next))
		if r.Intn(4) == 0 {
			alts = append(alts, gast.A(gast.L("#"), nid(), actSpec()))
		}
		ru := &gast.Rule{Name: self, Expr: gast.C(alts...)}
		if r.Intn(4) == 0 {
			ru.Display = "level " + self
		}
		g.Rules = append(g.Rules, ru)
	}
	atAlts := []*gast.Expr{
		gast.A(gast.Plus(gast.Cl(&gast.ClassSpec{Ranges: [][2]rune{{'0', '9'}}})), nid(), actSpec()),
		gast.A(gast.S(gast.L("("), gast.Lab("a", gast.Ref("E1")), gast.L(")")), nid(), actSpec()),
		gast.L("x"),
	}
	if useState {
		atAlts[0] = gast.S(gast.St(nid(), mon.Spec{S: 1 | 2}), atAlts[0])
	}
	g.Rules = append(g.Rules, &gast.Rule{Name: "At", Expr: gast.C(atAlts...)})
	// start rule: E1 followed by something that may send the parser back (forces discarded attempts)
	var start *gast.Expr
	switch r.Intn(4) {
	case 0:
		start = gast.S(gast.Lab("a", gast.Ref("E1")), gast.NotE(gast.Dot()))
	case 1:
		start = gast.C(gast.S(gast.Ref("E1"), gast.L(";")), gast.S(gast.Ref("E1"), gast.Star(gast.Dot())))
	case 2:
		start = gast.A(gast.S(gast.Lab("a", gast.Ref("E1")), gast.Lab("b", gast.Star(gast.S(gast.L(","), gast.Ref("E1"))))), nid(), mon.Spec{})
	default:
		start = gast.S(gast.Ref("E1"), gast.Opt(gast.S(gast.L("?"), gast.Ref(name(levels)))))
	}
	_ = startExtra
	g.Rules = append([]*gast.Rule{{Name: "S", Expr: start}}, g.Rules...)
	g.Finalize()
	return g
}

// lrInputs: sentences, mutations and long operator chains.
func lrInputs(g *gast.Grammar, r *rand.Rand, n int) [][]byte {
	alpha := g.Alphabet()
	var out [][]byte
	for i := 0; i < n; i++ {
		s := g.Sentence(r, "S", alpha, 7+r.Intn(6))
		switch i % 4 {
		case 1:
			s = gast.Mutate(r, s, alpha, false)
		case 2:
			s = gast.Mutate(r, gast.Mutate(r, s, alpha, false), alpha, false)
		}
		out = append(out, s)
	}
	// long chains over the grammar's own operators
	var ops []string
	for _, ru := range g.Rules {
		gast.Walk(ru.Expr, func(e *gast.Expr) {
			if e.Kind == gast.Lit && len(e.Val) == 1 && strings.ContainsAny(e.Val, "+-*/^%~=<>") {
				ops = append(ops, e.Val)
			}
		})
	}
	if len(ops) > 0 {
		for _, n := range []int{20, 200} {
			var sb strings.Builder
			sb.WriteString("1")
			for i := 0; i < n; i++ {
				sb.WriteString(ops[r.Intn(len(ops))])
				sb.WriteString([]string{"2", "x", "(3)", "45"}[r.Intn(4)])
			}
			out = append(out, []byte(sb.String()))
		}
	}
	return out
}

// C08: left-recursive rules parse as the left-associative iteration they denote.
func C08(c *Ctx) {
	c.Rule("expr/term/factor style grammars of 1-3 left-recursive levels in the form A <- A a1 / ... / A an / b1 / ... / bm (non-nullable ai with distinct operator terminals; every other grammar routes one level through a second rule), " +
		"operands with predicates, state blocks, erroring actions, unlabelled recursive references and action-less alternatives; inputs = derived sentences, mutations, chains of 20 and 200 operators; " +
		"four real configurations (-support-left-recursion with/without -optimize-parser, with/without Memoize); oracle = the model's iterative reading (first result from the non-recursive alternatives, then growth while the match gets longer, left-nested value, " +
		"errors and state changes of the non-extending attempt dropped): value, consumed prefix, error list, final state; plus the four configurations agree with each other. " +
		"distinct_nontrivial = distinct (grammar, input) with >=2 growth steps in the model")
	c.Assume("the cycle is always entered through its smallest-named rule (the leader pigeon selects)")
	rng := rand.New(rand.NewSource(c.Seed*613 + 8))
	n := c.N(200, 2000)
	var gs []*gast.Grammar
	for i := 0; i < n; i++ {
		gs = append(gs, genLR(rng, i%2 == 1))
	}
	gs = append(c08Strata(), gs...)
	models := map[string]*ref.Result{}
	var mmu sync.Mutex
	cfg := &DiffConfig{
		Grammars: gs,
		IsLR:     func(int) bool { return true },
		Variants: [][]string{{"-support-left-recursion"}, {"-support-left-recursion", "-optimize-parser"}},
		Cases: func(gi int, g *gast.Grammar) []*mon.Case {
			var cs []*mon.Case
			ins := lrInputs(g, rng, c.N(70, 200))
			ins = append(ins, c.inputsFor(g, rng, 0, c.N(60, 300), false)...)
			seen := map[string]bool{}
			var uniq [][]byte
			for _, in := range ins {
				if seen[string(in)] {
					continue
				}
				seen[string(in)] = true
				uniq = append(uniq, in)
				cs = append(cs, &mon.Case{Input: in, MaxExpr: 3000000, MaxEvents: 20, NoTrace: true})
				cs = append(cs, &mon.Case{Input: in, Memo: true, MaxExpr: 3000000, MaxEvents: 20, NoTrace: true})
				if len(uniq)%3 == 0 && g.Rule("E1") != nil {
					// the left-recursive rule itself as entrypoint (no wrapping start rule)
					cs = append(cs, &mon.Case{Input: in, Entry: "E1", MaxExpr: 3000000, MaxEvents: 20, NoTrace: true})
					cs = append(cs, &mon.Case{Input: in, Entry: "E1", Memo: true, MaxExpr: 3000000, MaxEvents: 20, NoTrace: true})
				}
			}
			// the model (pure re-evaluation, no memo) is only asked for short inputs; long chains are
			// decided differentially between the four real configurations
			parallel(len(uniq), 16, func(i int) {
				if len(uniq[i]) > 48 {
					return
				}
				m := ref.Run(g, uniq[i], ref.Opts{LR: true, StepCap: 300000, MaxEvents: 1})
				var me *ref.Result
				if g.Rule("E1") != nil {
					me = ref.Run(g, uniq[i], ref.Opts{LR: true, StepCap: 300000, MaxEvents: 1, Entry: "E1"})
				}
				mmu.Lock()
				models[fmt.Sprintf("%d/%s", gi, uniq[i])] = m
				if me != nil {
					models[fmt.Sprintf("%d/E1/%s", gi, uniq[i])] = me
				}
				mmu.Unlock()
			})
			return cs
		},
		Compare: stdCompare(false, true),
		OnRef: func(gi int, g *gast.Grammar, cs *mon.Case, r *mon.Result) {
			key := fmt.Sprintf("%d/%s", gi, cs.Input)
			if cs.Entry != "" {
				key = fmt.Sprintf("%d/%s/%s", gi, cs.Entry, cs.Input)
			}
			m := models[key]
			if m == nil {
				c.CovAdd("long_inputs_differential_only", 1)
				return
			}
			if m.Capped {
				c.Inconclusive("model_step_cap")
				return
			}
			c.CovAdd("growth_steps", m.LRGrowths)
			if m.LRGrowths >= 2 {
				c.Distinct(key)
			}
			mc := &mcCase{c: cs, in: cs.Input, os: OptSet{Memo: cs.Memo}}
			ds := compareModel(CmpVal|CmpEnd|CmpErrs|CmpState|CmpOK, mc, r, m)
			if len(ds) > 0 {
				d := ds[0]
				sig := c08Sig(g, cs, m, r, d)
				if cs.Memo && g.UsesState && d.field == "finalstate" {
					// known finding F22: a memoized result is reused without its state changes
					sig = append(sig, "F22-memo-state-not-replayed")
				}
				if !cs.Memo {
					// the always-on memo of left-recursive rules: the observation equals the model variant in
					// which a finished left-recursive result stays cached for its offset (F06 for the errors
					// it loses, F22 for the state changes)
					mv := ref.Run(g, cs.Input, ref.Opts{LR: true, LRKeepSeeds: true, StepCap: 300000, MaxEvents: 1, Entry: cs.Entry})
					if !mv.Capped && len(compareModel(CmpVal|CmpEnd|CmpErrs|CmpState|CmpOK, mc, r, mv)) == 0 {
						for _, x := range ds {
							if x.field == "finalstate" {
								sig = append(sig, "F22-memo-state-not-replayed")
							} else {
								sig = append(sig, "F06-lr-memo-lost-error")
							}
						}
					}
				}
				c.Report(&Violation{Class: "C08/model-" + d.field, Summary: fmt.Sprintf("%s differs from the iterative reading on grammar %q input %q memoize=%t: want %v got %v", d.field, gast.Short(g), cs.Input, cs.Memo, trunc(d.want), trunc(d.got)),
					Grammar: gast.Print(g, gast.PrintOpts{Pkg: cs.Pkg}), Flags: []string{"-support-left-recursion"}, Input: cs.Input, Case: cs, Want: d.want, Got: d.got,
					Sig: sig})
			}
		},
		NonTrivial: func(*mon.Result, *mon.Case) bool { return false },
		Chunk:      45,
		SigCase: func(g *gast.Grammar, variant []string, d diff, base *mon.Case) []string {
			// the reference ran with Memoize(true), the optimized parser has no such option: a final
			// state that differs is known finding F22 (memoized results lose their state changes)
			if base.Memo && g.UsesState && d.field == "finalstate" {
				return []string{"F22-memo-state-not-replayed"}
			}
			return nil
		},
		Sig: func(g *gast.Grammar, variant []string, d diff) []string {
			// the optimized parser has no Memoize option: a difference in the error text where the
			// memoizing reference run lost lines that the optimized run reports is F06 again
			a, ok1 := d.want.(string)
			b, ok2 := d.got.(string)
			if d.field == "errors" && ok1 && ok2 && len(a) < len(b) && subLines(a, b) {
				return []string{"F06-lr-memo-lost-error"}
			}
			return nil
		},
	}
	c.runKnownF06()
	c.runKnownF24()
	c.c08DebugPass(gs, rng)
	c.runKnownF22()
	c.DiffCheck(cfg)
}

// runKnownF06 executes the fixed witness of known finding F06.
// c08DebugPass: Debug(true) (alone and with Memoize) on inputs where one left-recursive match spans
// 30-300 bytes; the trace is written, not looked at - value, errors, consumed prefix and the input
// buffer must be what the same parse gives without the option.
func (c *Ctx) c08DebugPass(gs []*gast.Grammar, rng *rand.Rand) {
	if n := c.N(24, 160); len(gs) > n {
		gs = gs[:n]
	}
	bt := c.BuildUnits(gs, [][]string{{"-support-left-recursion"}}, false, func(int) bool { return true })
	defer bt.Close()
	var cases []*mon.Case
	type k struct {
		u  *Unit
		in []byte
	}
	var keys []k
	for _, u := range bt.Units {
		if !u.OK {
			continue
		}
		var ins [][]byte
		for _, in := range lrInputs(u.G, rng, 40) {
			if len(in) >= 30 && len(in) <= 300 {
				ins = append(ins, in)
			}
		}
		// chains whose growth steps end 38-46 bytes after the start of the rule
		for n := 17; n <= 24; n++ {
			ins = append(ins, []byte("1"+strings.Repeat("+2", n)), []byte("("+strings.Repeat("1+", n)+"1)+1"), []byte("100"+strings.Repeat("+200", n/2)))
		}
		if len(ins) > 24 {
			ins = ins[:24]
		}
		for _, in := range ins {
			i := len(keys)
			keys = append(keys, k{u, in})
			cases = append(cases, &mon.Case{ID: fmt.Sprintf("d/%d/p", i), Pkg: u.Pkg, Input: in, MaxExpr: 3000000, MaxEvents: 20, NoTrace: true},
				&mon.Case{ID: fmt.Sprintf("d/%d/d", i), Pkg: u.Pkg, Input: in, Debug: true, MaxExpr: 3000000, MaxEvents: 20, NoTrace: true},
				&mon.Case{ID: fmt.Sprintf("d/%d/m", i), Pkg: u.Pkg, Input: in, Debug: true, Memo: true, MaxExpr: 3000000, MaxEvents: 20, NoTrace: true})
		}
	}
	res := bt.Run(cases, batch.RunOpts{MaxDeaths: 4})
	for i, ky := range keys {
		p := res[fmt.Sprintf("d/%d/p", i)]
		for _, v := range []string{"d", "m"} {
			r := res[fmt.Sprintf("d/%d/%s", i, v)]
			c.Eval(1)
			if p == nil || r == nil || p.Timeout || r.Timeout {
				c.Inconclusive("no_result")
				continue
			}
			c.CovAdd("debug_runs_on_long_left_recursive_matches", 1)
			if r.Val != p.Val || r.ErrStr != p.ErrStr || r.End != p.End || r.InputChanged || r.Panic != p.Panic {
				what := map[string]string{"d": "Debug(true)", "m": "Debug(true)+Memoize(true)"}[v]
				c.Report(&Violation{Class: "C08/debug-changes-result", Summary: fmt.Sprintf("with %s a left-recursive parse returns %s / %q (end %d, input buffer touched: %t), without it %s / %q (end %d); input %q grammar %q",
					what, trunc(r.Val), trunc(r.ErrStr), r.End, r.InputChanged, trunc(p.Val), trunc(p.ErrStr), p.End, ky.in, gast.Short(ky.u.G)), Grammar: ky.u.Text, Flags: ky.u.Flags, Input: ky.in})
			}
		}
	}
}

// runKnownF24 executes the witness of known finding F24: a two-rule left-recursive cycle entered
// through the rule that is NOT the leader pigeon selects (the alphabetically first candidate). The
// leader is grown greedily and its longest result is the only one the entered rule gets to see, so
// the entered rule loses matches the iterative reading gives it.
func (c *Ctx) runKnownF24() {
	found := false
	for _, id := range c.KnownIDs() {
		if id == "F24-nonleader-entry" {
			found = true
		}
	}
	if !found {
		return
	}
	at := func() *gast.Expr { return gast.Cl(gast.Chars("x")) }
	g := &gast.Grammar{Rules: []*gast.Rule{
		{Name: "S", Expr: gast.S(gast.Lab("a", gast.Ref("D2")), gast.Star(gast.Dot()))},
		{Name: "D2", Expr: gast.C(gast.S(gast.Ref("C2"), gast.L("~"), at()), at())},
		{Name: "C2", Expr: gast.C(gast.S(gast.Ref("D2"), gast.L("<")), gast.S(gast.L(">"), at()))},
	}}
	g.Finalize()
	bt := c.BuildUnits([]*gast.Grammar{g}, [][]string{{"-support-left-recursion"}}, false, func(int) bool { return true })
	defer bt.Close()
	if !bt.Units[0].OK {
		c.Broken("F24 witness does not build: " + bt.Units[0].Fail)
		return
	}
	in := []byte(">x~x<")
	r := bt.Run([]*mon.Case{{ID: "f24", Pkg: bt.Units[0].Pkg, Input: in}}, runOptsDefault)["f24"]
	m := ref.Run(g, in, ref.Opts{LR: true})
	// the iterative reading: D2 matches ">x~x" (the growth step "<" "~" x fails), S succeeds
	c.MarkKnownStillFails("F24-nonleader-entry", r == nil || m.OK && (!r.ErrNil || r.Val != m.ValCanon))
	c.Eval(1)
}

func (c *Ctx) runKnownF06() {
	g := c08Strata()[0]
	// make the operand's action fail always, so the witness does not depend on the coin
	gast.Walk(g.Rule("N").Expr, func(e *gast.Expr) {
		if e.Code != nil {
			e.Code.Spec.E = 1
		}
	})
	bt := c.BuildUnits([]*gast.Grammar{g}, [][]string{{"-support-left-recursion"}}, false, func(int) bool { return true })
	defer bt.Close()
	if !bt.Units[0].OK {
		c.Broken("F06 witness does not build: " + bt.Units[0].Fail)
		return
	}
	in := []byte("1+7")
	cs := &mon.Case{ID: "f06", Pkg: bt.Units[0].Pkg, Input: in, Memo: true}
	r := bt.Run([]*mon.Case{cs}, runOptsDefault)["f06"]
	m := ref.Run(g, in, ref.Opts{LR: true})
	fails := r == nil || len(r.Errs) != len(m.Errs)
	c.MarkKnownStillFails("F06-lr-memo-lost-error", fails)
	c.Eval(1)
}

// c08Sig recognises known finding F06: under Memoize(true) (and only there) errors recorded while a
// discarded growth attempt ran are lost although the memoized result is used later, i.e. the real
// error list is a proper sub-list of the model's and the value agrees.
func c08Sig(g *gast.Grammar, cs *mon.Case, m *ref.Result, r *mon.Result, d diff) []string {
	if d.field != "errors" || !cs.Memo || r.Val != m.ValCanon {
		return nil
	}
	want := errMsgs("", m)
	i := 0
	for _, e := range r.Errs {
		for i < len(want) && want[i] != e.Msg {
			i++
		}
		if i == len(want) {
			return nil
		}
		i++
	}
	if len(r.Errs) < len(want) {
		return []string{"F06-lr-memo-lost-error"}
	}
	return nil
}

func c08Strata() []*gast.Grammar {
	mk := func(rules ...*gast.Rule) *gast.Grammar { g := &gast.Grammar{Rules: rules}; g.Finalize(); return g }
	r := func(n string, e *gast.Expr) *gast.Rule { return &gast.Rule{Name: n, Expr: e} }
	act := func(e *gast.Expr, id int, sp mon.Spec) *gast.Expr { return gast.A(e, id, sp) }
	return []*gast.Grammar{
		// an erroring operand evaluated in a discarded growth attempt and needed again afterwards
		mk(r("S", gast.S(gast.Ref("E1"), gast.Star(gast.S(gast.L("+"), gast.Ref("N"))), gast.NotE(gast.Dot()))),
			r("E1", gast.C(act(gast.S(gast.Lab("a", gast.Ref("E1")), gast.L("+"), gast.Lab("b", gast.Ref("N")), gast.L("!")), 1, mon.Spec{}), gast.Ref("N"))),
			r("N", act(gast.Plus(gast.Cl(&gast.ClassSpec{Ranges: [][2]rune{{'0', '9'}}})), 2, mon.Spec{E: 2}))),
		// two recursive alternatives sharing the recursive prefix; the first calls a plain rule and
		// then fails, so everything after the recursive reference is evaluated twice per growth step
		mk(r("S", gast.S(gast.Lab("a", gast.Ref("E1")), gast.Star(gast.Dot()))),
			r("E1", gast.C(act(gast.S(gast.Lab("a", gast.Ref("E1")), gast.L("+"), gast.Lab("b", gast.Ref("At")), gast.L("!")), 1, mon.Spec{}),
				act(gast.S(gast.Lab("a", gast.Ref("E1")), gast.L("+"), gast.Lab("b", gast.Ref("At"))), 2, mon.Spec{}), gast.Ref("At"))),
			r("At", act(gast.Plus(gast.Cl(&gast.ClassSpec{Ranges: [][2]rune{{'0', '9'}}})), 3, mon.Spec{}))),
		// a directly left-recursive rule above an indirect cycle on the lower level
		mk(r("S", gast.S(gast.Ref("E1"), gast.NotE(gast.Dot()))),
			r("E1", gast.C(act(gast.S(gast.Lab("a", gast.Ref("E1")), gast.Cl(gast.Chars("+-")), gast.Lab("b", gast.Ref("E2"))), 1, mon.Spec{}), gast.Ref("E2"))),
			r("E2", gast.C(gast.Ref("Prod"), gast.Ref("At"))), r("Prod", act(gast.S(gast.Lab("a", gast.Ref("E2")), gast.Cl(gast.Chars("*/")), gast.Lab("b", gast.Ref("At"))), 2, mon.Spec{})),
			r("At", act(gast.Plus(gast.Cl(&gast.ClassSpec{Ranges: [][2]rune{{'0', '9'}}})), 3, mon.Spec{R: 2}))),
		// classic two-level arithmetic
		mk(r("S", gast.S(gast.Ref("E1"), gast.NotE(gast.Dot()))),
			r("E1", gast.C(act(gast.S(gast.Lab("a", gast.Ref("E1")), gast.L("+"), gast.Lab("b", gast.Ref("E2"))), 1, mon.Spec{}), gast.Ref("E2"))),
			r("E2", gast.C(act(gast.S(gast.Lab("a", gast.Ref("E2")), gast.L("*"), gast.Lab("b", gast.Ref("At"))), 2, mon.Spec{}), gast.Ref("At"))),
			r("At", gast.C(act(gast.Plus(gast.Cl(&gast.ClassSpec{Ranges: [][2]rune{{'0', '9'}}})), 3, mon.Spec{R: 2}), gast.S(gast.L("("), gast.Ref("E1"), gast.L(")"))))),
		// a left-recursive rule called again exactly where its previous match ended (juxtaposition,
		// tokens that swallow their trailing blanks), below another left-recursive rule
		mk(r("S", gast.S(gast.Ref("Lst"), gast.NotE(gast.Dot()))),
			r("Lst", gast.C(act(gast.S(gast.Lab("a", gast.Ref("Lst")), gast.Lab("b", gast.Ref("E1"))), 1, mon.Spec{}), gast.Ref("E1"))),
			r("E1", gast.C(act(gast.S(gast.Lab("a", gast.Ref("E1")), gast.L("+"), gast.Lab("b", gast.Ref("At"))), 2, mon.Spec{}), gast.Ref("At"))),
			r("At", gast.C(act(gast.S(gast.Plus(gast.Cl(&gast.ClassSpec{Ranges: [][2]rune{{'0', '9'}}})), gast.Star(gast.L(" "))), 3, mon.Spec{R: 2}), gast.S(gast.L("("), gast.Ref("E1"), gast.L(")"))))),
		// a left-recursive rule evaluated under a lookahead, where it has to grow
		mk(r("S", gast.C(act(gast.S(gast.AndE(gast.S(gast.Ref("E1"), gast.L("="))), gast.Lab("a", gast.Ref("E1")), gast.L("="), gast.Lab("b", gast.Ref("E1"))), 1, mon.Spec{}),
			gast.S(gast.NotE(gast.S(gast.Ref("E1"), gast.L(";"))), gast.Lab("a", gast.Ref("E1")), gast.Star(gast.Dot())), gast.S(gast.Ref("E1"), gast.L(";")))),
			r("E1", gast.C(act(gast.S(gast.Lab("a", gast.Ref("E1")), gast.L("+"), gast.Lab("b", gast.Ref("At"))), 2, mon.Spec{}), gast.Ref("At"))),
			r("At", act(gast.Plus(gast.Cl(&gast.ClassSpec{Ranges: [][2]rune{{'0', '9'}}})), 3, mon.Spec{R: 2}))),
		// two separate two-rule cycles, the upper one with names that sort after the lower one's
		mk(r("S", gast.S(gast.Ref("Sum"), gast.NotE(gast.Dot()))), r("Sum", gast.C(act(gast.S(gast.Lab("a", gast.Ref("SumL")), gast.Lab("b", gast.Ref("Prod"))), 1, mon.Spec{}), gast.Ref("Prod"))), r("SumL", act(gast.S(gast.Lab("a", gast.Ref("Sum")), gast.L("+")), 2, mon.Spec{R: 3})),
			r("Prod", gast.C(act(gast.S(gast.Lab("a", gast.Ref("ProdL")), gast.Lab("b", gast.Ref("At"))), 3, mon.Spec{}), gast.Ref("At"))), r("ProdL", act(gast.S(gast.Lab("a", gast.Ref("Prod")), gast.L("*")), 4, mon.Spec{R: 3})),
			r("At", act(gast.Plus(gast.Cl(&gast.ClassSpec{Ranges: [][2]rune{{'0', '9'}}})), 5, mon.Spec{R: 2}))),
		// a key of the state store deleted (and others set) by state blocks on the growing path: the
		// snapshot restored when the last, non-extending attempt is rolled back is the store as the
		// last kept step left it, not an older one with the deleted key still present
		mk(r("S", gast.S(gast.St(3, mon.Spec{S: 8}), gast.St(4, mon.Spec{S: 8}), gast.Lab("a", gast.Ref("E1")), gast.St(9, mon.Spec{S: 1}), gast.Star(gast.Dot()))),
			r("E1", gast.C(gast.S(gast.Ref("E1"), gast.L(","), gast.St(2, mon.Spec{S: 17}), gast.Ref("At")), gast.S(gast.Ref("E1"), gast.L(";"), gast.St(5, mon.Spec{S: 24}), gast.Ref("At")), gast.Ref("At"))),
			r("At", act(gast.Plus(gast.Cl(&gast.ClassSpec{Ranges: [][2]rune{{'0', '9'}}})), 6, mon.Spec{R: 2}))),
		// non-recursive alternatives that can match the empty string (the property only asks the
		// recursive tails to be non-nullable): the first pass may well be empty and still has to grow
		mk(r("S", gast.S(gast.Lab("a", gast.Ref("Lst")), gast.NotE(gast.Dot()))),
			r("Lst", gast.C(act(gast.S(gast.Lab("a", gast.Ref("Lst")), gast.L(","), gast.Lab("b", gast.Ref("Item"))), 1, mon.Spec{}), gast.Opt(gast.Ref("Item")))),
			r("Item", act(gast.Plus(gast.Cl(gast.Chars("ab"))), 2, mon.Spec{R: 2}))),
		mk(r("S", gast.S(gast.L("<"), gast.Lab("a", gast.Ref("Num")), gast.L(">"), gast.Star(gast.Dot()))),
			r("Num", gast.C(act(gast.S(gast.Lab("a", gast.Ref("Num")), gast.Lab("b", gast.Cl(&gast.ClassSpec{Ranges: [][2]rune{{'0', '9'}}}))), 1, mon.Spec{}), gast.L("")))),
		mk(r("S", gast.S(gast.Lab("a", gast.Ref("E1")), gast.Star(gast.Dot()))),
			r("E1", gast.C(act(gast.S(gast.Lab("a", gast.Ref("E1")), gast.L("+"), gast.Lab("b", gast.Ref("At"))), 1, mon.Spec{}), gast.S(gast.Lab("a", gast.Ref("E1")), gast.L("-"), gast.Ref("At")), gast.Ref("At"), gast.Star(gast.L(" ")))),
			r("At", act(gast.Plus(gast.Cl(&gast.ClassSpec{Ranges: [][2]rune{{'0', '9'}}})), 2, mon.Spec{R: 2}))),
		// a left-recursive rule whose operands are another left-recursive rule that lists a non-recursive
		// alternative BEFORE its recursive one (a pass of the inner rule may never read its seed)
		mk(r("S", gast.S(gast.Lab("a", gast.Ref("E1")), gast.NotE(gast.Dot()))),
			r("E1", gast.C(act(gast.S(gast.Lab("a", gast.Ref("E1")), gast.L("+"), gast.Lab("b", gast.Ref("T"))), 1, mon.Spec{}), gast.Ref("T"))),
			r("T", gast.C(gast.S(gast.Ref("N"), gast.NotE(gast.L("*"))), act(gast.S(gast.Lab("a", gast.Ref("T")), gast.L("*"), gast.Lab("b", gast.Ref("N"))), 2, mon.Spec{}), gast.Ref("N"))),
			r("N", act(gast.Plus(gast.Cl(&gast.ClassSpec{Ranges: [][2]rune{{'0', '9'}}})), 3, mon.Spec{R: 2}))),
		mk(r("S", gast.S(gast.Lab("a", gast.Ref("E1")), gast.Star(gast.Dot()))),
			r("E1", gast.C(gast.S(gast.Ref("At"), gast.AndE(gast.L(";"))), act(gast.S(gast.Lab("a", gast.Ref("E1")), gast.L("-"), gast.Lab("b", gast.Ref("E2"))), 1, mon.Spec{}), gast.Ref("E2"))),
			r("E2", gast.C(gast.S(gast.Ref("At"), gast.NotE(gast.Cl(gast.Chars("/%")))), act(gast.S(gast.Lab("a", gast.Ref("E2")), gast.Cl(gast.Chars("/%")), gast.Lab("b", gast.Ref("At"))), 2, mon.Spec{}), gast.Ref("At"))),
			r("At", act(gast.Plus(gast.Cl(&gast.ClassSpec{Ranges: [][2]rune{{'0', '9'}}})), 3, mon.Spec{R: 2}))),
		// a rule that is left-recursive directly AND through one other rule whose name sorts before its own
		// (C1 < E1), entered through the rule itself
		mk(r("S", gast.S(gast.Lab("a", gast.Ref("E1")), gast.Star(gast.Dot()))),
			r("E1", gast.C(act(gast.S(gast.Lab("a", gast.Ref("E1")), gast.L("+"), gast.Lab("b", gast.Ref("At"))), 1, mon.Spec{}), act(gast.S(gast.Lab("a", gast.Ref("C1")), gast.L("!")), 2, mon.Spec{}), gast.Ref("At"))),
			r("C1", act(gast.S(gast.Lab("a", gast.Ref("E1")), gast.L("("), gast.L(")")), 3, mon.Spec{})),
			r("At", act(gast.Plus(gast.Cl(&gast.ClassSpec{Ranges: [][2]rune{{'0', '9'}}})), 4, mon.Spec{R: 2}))),
		// recursive tails that start with a case-insensitive literal or class, written in either case
		// (the generator lower-cases them; the input keeps its own case)
		mk(r("S", gast.S(gast.Lab("a", gast.Ref("Cond")), gast.NotE(gast.Dot()))),
			r("Cond", gast.C(act(gast.S(gast.Lab("a", gast.Ref("Cond")), gast.Li("AND"), gast.Lab("b", gast.Ref("Cmp"))), 1, mon.Spec{}),
				act(gast.S(gast.Lab("a", gast.Ref("Cond")), gast.Li("or"), gast.Lab("b", gast.Ref("Cmp"))), 2, mon.Spec{}),
				act(gast.S(gast.Lab("a", gast.Ref("Cond")), gast.Cl(&gast.ClassSpec{Chars: []rune("XÉ"), IgnoreCase: true}), gast.Lab("b", gast.Ref("Cmp"))), 3, mon.Spec{}), gast.Ref("Cmp"))),
			r("Cmp", act(gast.S(gast.Plus(gast.Cl(&gast.ClassSpec{Ranges: [][2]rune{{'0', '9'}}})), gast.Star(gast.L(" "))), 4, mon.Spec{R: 2}))),
	}
}

func subLines(a, b string) bool {
	la, lb := strings.Split(a, "\n"), strings.Split(b, "\n")
	i := 0
	for _, x := range la {
		if x == "" {
			continue
		}
		for i < len(lb) && lb[i] != x {
			i++
		}
		if i == len(lb) {
			return false
		}
		i++
	}
	return true
}

package checks

import (
	"os"
	"fmt"
	"math"
	"math/rand"
	"strings"

	"verif/engine/batch"
	"verif/engine/gast"
	"verif/engine/mon"
	"verif/engine/ref"
)

// pureProfile: blocks are pure functions of text, pos and their labels (C06's precondition).
func pureProfile() *gast.Profile {
	p := pegProfile()
	p.W[gast.Action] = 14
	p.W[gast.RuleRef] = 16
	p.PLabel = 55
	p.ActSpec = func(r *rand.Rand) mon.Spec {
		return mon.Spec{R: pick(r, 0, 0, 0, 1, 2, 3), E: pick(r, 0, 0, 0, 1, 2, 3, 4)}
	}
	p.PredSpec = func(r *rand.Rand) mon.Spec { return mon.Spec{B: pick(r, 0, 0, 1, 4), E: pick(r, 0, 0, 0, 1)} }
	return p
}

// C06: Memoize, Debug, Statistics never change results; Memoize bounds the work.
func C06(c *Ctx) {
	c.Rule("pure grammars (blocks are functions of text, pos, labels; no state blocks, no throw/recover) built to revisit the same expression at the same offset from different contexts (shared rules, labelled items after variable-length prefixes, nested backtracking); " +
		"each input parsed under all 8 subsets of {Memoize, Debug, Statistics}; oracle: (a) every subset returns the model's value and code-block error list (the model is option-independent), " +
		"(b) under Memoize no (action id, offset) occurs twice and Stats.ExprCnt <= #expressions x (len+1), (c) Debug traces are position-pure. " +
		"distinct_nontrivial = distinct (grammar, input) whose unmemoized model evaluation revisits work (>=2 backtracks) and runs >=2 blocks")
	c.Assume("the synthesized 'no match found' text is not a code-block error: under Memoize only its presence is compared")
	var os []OptSet
	for i := 0; i < 8; i++ {
		o := OptSet{Memo: i&1 != 0, Debug: i&2 != 0, Stats: i&4 != 0}
		o.Name = fmt.Sprintf("memo=%t,debug=%t,stats=%t", o.Memo, o.Debug, o.Stats)
		os = append(os, o)
	}
	// the other options must not switch the cache off: Memoize together with InitState (the store is
	// not empty although the grammar has no state blocks), with AllowInvalidUTF8, through ParseReader
	os = append(os, OptSet{Name: "memo=true,initstate", Memo: true, Init: 4}, OptSet{Name: "memo=true,allowinvalid", Memo: true, AllowInvalid: true}, OptSet{Name: "memo=true,reader", Memo: true, Reader: true})
	cfg := &MCConfig{
		Profile: pureProfile(), Grammars: c06Strata(), NGrammars: c.N(90, 1500),
		FlagSets:  [][]string{{}},
		InputsPer: c.N(50, 120), ExhaustLimit: c.N(120, 700), ExhaustLen: 7,
		OptSets: os, DebugOptEvery: 3,
		Compare:    CmpVal | CmpErrs | CmpOK | CmpEnd | CmpTrace | CmpMemoOnce,
		NonTrivial: func(m *ref.Result) bool { return m.Backtracks >= 2 && len(m.Trace) >= 2 },
		StalePS:    "F02-stale-pred-pos",
		ExtraInputs: func(g *gast.Grammar, _ *rand.Rand) [][]byte {
			if g.Rules[0].Name == "SErr" {
				return [][]byte{[]byte("1;2;3;4;5;6;"), []byte("1a;2b;3;4;5c;6;7;8"), []byte("0;1;2;3;4;5;6;7;8;9;0b;1c;")}
			}
			return nil
		},
	}
	c.runKnownF20()
	c.runKnownF25()
	c.ModelCheck(cfg)
	// the options must not change results of left-recursive grammars either (value and consumed
	// prefix; error lists under Memoize are subject to known finding F06 and compared in C08)
	c.lrPass(6, c.N(30, 300), CmpVal|CmpEnd|CmpOK, []OptSet{{Name: "default"}, {Name: "memoize", Memo: true}, {Name: "memoize+stats", Memo: true, Stats: true}, {Name: "debug", Debug: true}}, false,
		func(m *ref.Result) bool { return m.LRGrowths >= 1 })
	c.c06Long()
}

// runKnownF25 executes the fixed witness of known finding F25: R <- e:( "a" R ) ( &"b" {reads e} ) / ""
// on "aab": the action expression is evaluated at offset 2 for the inner R (e = the inner group) and
// found in the cache for the outer R, whose e is another value.
func (c *Ctx) runKnownF25() {
	found := false
	for _, id := range c.KnownIDs() {
		if id == "F25-memo-action-outer-labels" {
			found = true
		}
	}
	if !found {
		return
	}
	g := &gast.Grammar{Rules: []*gast.Rule{{Name: "R", Expr: gast.C(gast.S(gast.Lab("e", gast.S(gast.L("a"), gast.Ref("R"))), gast.A(gast.AndE(gast.L("b")), 1, mon.Spec{})), gast.L(""))}}}
	g.Finalize()
	bt := c.BuildUnits([]*gast.Grammar{g}, [][]string{{}}, false, nil)
	defer bt.Close()
	if !bt.Units[0].OK {
		c.Broken("F25 witness does not build: " + bt.Units[0].Fail)
		return
	}
	in := []byte("aab")
	res := bt.Run([]*mon.Case{{ID: "f25/d", Pkg: bt.Units[0].Pkg, Input: in}, {ID: "f25/m", Pkg: bt.Units[0].Pkg, Input: in, Memo: true}}, runOptsDefault)
	m := ref.Run(g, in, ref.Opts{})
	d, mm := res["f25/d"], res["f25/m"]
	if d == nil || mm == nil || d.Val != m.ValCanon {
		c.Broken("F25 witness: the default-option run does not give the model's value")
		return
	}
	c.MarkKnownStillFails("F25-memo-action-outer-labels", mm.Val != d.Val)
	c.Eval(2)
}

// runKnownF20 executes the fixed witness of known finding F20.
func (c *Ctx) runKnownF20() {
	g := c06Strata()[0]
	g.Finalize()
	bt := c.BuildUnits([]*gast.Grammar{g}, [][]string{{}}, false, nil)
	defer bt.Close()
	if !bt.Units[0].OK {
		c.Broken("F20 witness does not build: " + bt.Units[0].Fail)
		return
	}
	fails := false
	var cases []*mon.Case
	ins := [][]byte{[]byte("xxy"), []byte("xxxy"), []byte("xy"), []byte("xxxxy"), []byte("xxyz"), []byte("xxxyz")}
	for i, in := range ins {
		cases = append(cases, &mon.Case{ID: fmt.Sprint("f20/", i), Pkg: bt.Units[0].Pkg, Input: in, Memo: true})
	}
	res := bt.Run(cases, runOptsDefault)
	for i, in := range ins {
		m := ref.Run(g, in, ref.Opts{})
		if r := res[fmt.Sprint("f20/", i)]; r != nil && r.Val != m.ValCanon {
			fails = true
		}
	}
	c.MarkKnownStillFails("F20-memo-predicate-labels", fails)
	c.Eval(len(ins))
}

// c06Long: the linear work bound on long, deeply nested inputs (300-900 bytes) where the
// unmemoized parse (and the model) would need exponential time: only the real parser runs, under
// Memoize+Statistics, and the number of choice expressions it actually evaluated (the sum of
// Stats.ChoiceAltCnt: a cache hit books nothing) is compared with #choices x (len+1); Memoize with
// and without Statistics must return the same value.
func (c *Ctx) c06Long() {
	rng := rand.New(rand.NewSource(c.Seed*53 + 6))
	act := func(e *gast.Expr, id int) *gast.Expr { return gast.A(e, id, mon.Spec{R: 1}) }
	arith := &gast.Grammar{Rules: []*gast.Rule{
		{Name: "S", Expr: gast.S(gast.Ref("Expr"), gast.NotE(gast.Dot()))},
		{Name: "Expr", Expr: gast.C(act(gast.S(gast.Lab("a", gast.Ref("Term")), gast.L("+"), gast.Lab("b", gast.Ref("Expr"))), 1), act(gast.S(gast.Lab("a", gast.Ref("Term")), gast.L("-"), gast.Lab("b", gast.Ref("Expr"))), 2), gast.Ref("Term"))},
		{Name: "Term", Expr: gast.C(act(gast.S(gast.L("("), gast.Lab("a", gast.Ref("Expr")), gast.L(")")), 3), act(gast.Plus(gast.Cl(gast.Chars("01"))), 4))},
	}}
	gs := []*gast.Grammar{arith, c06Strata()[4], c06Strata()[5]}
	p := pureProfile()
	p.PBackRef = 60
	for i := 0; i < c.N(10, 80); i++ {
		gs = append(gs, gast.Generate(rng, p))
	}
	for _, g := range gs {
		g.Finalize()
	}
	bt := c.BuildUnits(gs, [][]string{{}}, false, nil)
	defer bt.Close()
	var cases []*mon.Case
	info := map[string]*Unit{}
	for _, u := range bt.Units {
		if !u.OK {
			continue
		}
		var ins [][]byte
		for _, d := range []int{120, 300} {
			ins = append(ins, []byte(strings.Repeat("(", d)+"1"+strings.Repeat(")", d)), []byte(strings.Repeat("(", d)+"1"+strings.Repeat(")", d-1)),
				[]byte(strings.Repeat("a", 2*d)), []byte(strings.Repeat("ab", d)+"x"))
		}
		alpha := u.G.Alphabet()
		for i := 0; i < 6; i++ {
			var b []byte
			want := 300 + rng.Intn(500)
			for tries := 0; len(b) < want && tries < 400; tries++ {
				s := u.G.Sentence(rng, u.G.Rules[0].Name, alpha, 9)
				if len(s) == 0 {
					s = []byte(string(alpha[rng.Intn(len(alpha))]))
				}
				b = append(b, s...)
			}
			ins = append(ins, b)
		}
		for ii, in := range ins {
			for oi, st := range []bool{true, false} {
				id := fmt.Sprintf("%s/L%d/%d", u.Pkg, ii, oi)
				info[id] = u
				cases = append(cases, &mon.Case{ID: id, Pkg: u.Pkg, Input: in, Memo: true, Stats: st, MaxExpr: 5000000, MaxEvents: 50})
			}
		}
	}
	npair := len(cases)
	for i := 0; i+1 < npair; i += 2 {
		if in := cases[i].Input; len(in) <= 700 && i%8 < 4 {
			cases = append(cases, &mon.Case{ID: cases[i].ID + "/dbg", Pkg: cases[i].Pkg, Input: in, Memo: true, DebugQuiet: true, MaxExpr: 5000000, MaxEvents: 50})
		}
	}
	res := bt.Run(cases, batch.RunOpts{})
	for i := 0; i+1 < npair; i += 2 {
		st, pl := res[cases[i].ID], res[cases[i+1].ID]
		u := info[cases[i].ID]
		c.Eval(2)
		if st == nil || pl == nil {
			c.Inconclusive("no_result")
			continue
		}
		if st.Timeout || pl.Timeout {
			c.Inconclusive("watchdog")
			continue
		}
		in := cases[i].Input
		nch := u.G.KindsUsed()[gast.Choice]
		bound := nch * (len(in) + 1)
		c.CovAdd("long_inputs_checked", 1)
		c.Distinct(fmt.Sprintf("long/%s/%d", u.Pkg, i))
		if st.ChoiceEvals > bound {
			c.Report(&Violation{Class: "C06/memo-bound-long", Summary: fmt.Sprintf("under Memoize(true) %d choice expressions were evaluated (sum of Stats.ChoiceAltCnt) on an input of %d bytes, more than #choices x (len+1) = %d x %d = %d: some (expression, offset) pairs are evaluated more than once; grammar %q", st.ChoiceEvals, len(in), nch, len(in)+1, bound, gast.Short(u.G)),
				Grammar: u.Text, Input: in, Case: cases[i]})
		}
		if dbg := res[cases[i].ID+"/dbg"]; dbg != nil && !dbg.Timeout {
			// Debug(true) on the same long input (matches of some hundred bytes are printed in the trace):
			// same result, and the caller's input buffer is what it was
			c.CovAdd("long_inputs_under_debug", 1)
			if dbg.Val != pl.Val || dbg.ErrNil != pl.ErrNil || dbg.InputChanged || dbg.Touched != "" {
				c.Report(&Violation{Class: "C06/long-debug-differs", Summary: fmt.Sprintf("Debug(true) changes the result of a parse of a %d-byte input (value equal: %t, error-nil equal: %t, input buffer changed: %t %s); grammar %q", len(in), dbg.Val == pl.Val, dbg.ErrNil == pl.ErrNil, dbg.InputChanged, dbg.Touched, gast.Short(u.G)),
					Grammar: u.Text, Input: in, Case: cases[i]})
			}
		}
		if st.Val != pl.Val || st.ErrNil != pl.ErrNil {
			c.Report(&Violation{Class: "C06/long-options-differ", Summary: fmt.Sprintf("Memoize with and without Statistics disagree on a long input; grammar %q", gast.Short(u.G)), Grammar: u.Text, Input: in, Case: cases[i]})
		}
	}
}

func c06Strata() []*gast.Grammar {
	mk := func(rules ...*gast.Rule) *gast.Grammar { return &gast.Grammar{Rules: rules} }
	r := func(n string, e *gast.Expr) *gast.Rule { return &gast.Rule{Name: n, Expr: e} }
	act := func(e *gast.Expr, id int) *gast.Expr { return gast.A(e, id, mon.Spec{}) }
	// nested backtracking A x / A y / A to some depth
	nest := func(depth int) *gast.Grammar {
		var rules []*gast.Rule
		for i := 0; i < depth; i++ {
			next := gast.L("a")
			if i+1 < depth {
				next = gast.Ref(fmt.Sprintf("N%d", i+1))
			}
			rules = append(rules, r(fmt.Sprintf("N%d", i), act(gast.C(gast.S(gast.Lab("a", next.Clone()), gast.L("x")), gast.S(gast.Lab("a", next.Clone()), gast.L("y")), gast.Lab("b", next.Clone())), i+1)))
		}
		return mk(rules...)
	}
	_ = nest
	return append(c06StrataOld(), []*gast.Grammar{
		// a repetition directly over a terminal, entered at every start offset of one long run (a
		// repetition that evaluates its operand without consulting the cache re-reads the run each time)
		mk(r("S", gast.C(gast.Ref("W"), gast.S(gast.Dot(), gast.Ref("S")), gast.NotE(gast.Dot()))), r("W", gast.S(gast.Star(gast.Cl(&gast.ClassSpec{Ranges: [][2]rune{{'a', 'z'}}})), gast.L("!")))),
		mk(r("S", gast.C(act(gast.S(gast.Plus(gast.L("a")), gast.L(";")), 1), gast.S(gast.Dot(), gast.Ref("S")), gast.NotE(gast.Dot())))),
	}...)
}

func c06StrataOld() []*gast.Grammar {
	mk := func(rules ...*gast.Rule) *gast.Grammar { return &gast.Grammar{Rules: rules} }
	r := func(n string, e *gast.Expr) *gast.Rule { return &gast.Rule{Name: n, Expr: e} }
	act := func(e *gast.Expr, id int) *gast.Expr { return gast.A(e, id, mon.Spec{}) }
	nest := func(depth int) *gast.Grammar {
		var rules []*gast.Rule
		for i := 0; i < depth; i++ {
			next := gast.L("a")
			if i+1 < depth {
				next = gast.Ref(fmt.Sprintf("N%d", i+1))
			}
			rules = append(rules, r(fmt.Sprintf("N%d", i), act(gast.C(gast.S(gast.Lab("a", next.Clone()), gast.L("x")), gast.S(gast.Lab("a", next.Clone()), gast.L("y")), gast.Lab("b", next.Clone())), i+1)))
		}
		return mk(rules...)
	}
	return []*gast.Grammar{
		// a code predicate whose verdict depends on a label, reached at one offset with two different label values
		mk(r("S", gast.C(gast.S(gast.Ref("A"), gast.L("z")), gast.S(gast.L("x"), gast.Ref("A")), gast.Star(gast.Dot()))),
			r("A", act(gast.S(gast.Lab("a", gast.Star(gast.L("x"))), gast.AndC(7, mon.Spec{B: 4}), gast.Lab("b", gast.L("y"))), 1))),
		// the first label of a scope after an unlabelled variable-length prefix
		mk(r("S", gast.C(gast.S(gast.Lab("v", gast.Ref("A")), gast.L("z")), gast.S(gast.L("x"), gast.Lab("v", gast.Ref("A"))))),
			r("A", act(gast.S(gast.Star(gast.L("x")), gast.Lab("b", gast.L("y"))), 1))),
		// labelled item after a variable-length prefix, rule reached from two alternatives
		mk(r("S", gast.C(gast.S(gast.Ref("A"), gast.L("z")), gast.S(gast.L("x"), gast.Ref("A")))),
			r("A", act(gast.S(gast.Lab("a", gast.Star(gast.L("x"))), gast.Lab("b", gast.L("y"))), 1))),
		// nested sequence binding labels in the outer frame, re-reached after a different prefix
		mk(r("S", gast.C(gast.S(gast.Ref("A"), gast.L("!")), gast.S(gast.L("x"), gast.Ref("A")))),
			r("A", act(gast.S(gast.Lab("a", gast.Star(gast.L("x"))), gast.S(gast.Lab("b", gast.L("y")), gast.Lab("d", gast.Opt(gast.L("y"))))), 1))),
		nest(8), nest(14),
		// a repetition that matched from o to e is evaluated again exactly at e (zero iterations there)
		mk(r("S", gast.C(gast.S(gast.Lab("a", gast.Ref("As")), gast.L("?")), gast.S(gast.L("xx"), gast.Lab("b", gast.Ref("As")), gast.L("!")), gast.S(gast.L("x"), gast.Lab("d", gast.Ref("Bs")), gast.Star(gast.Dot())))),
			r("As", gast.Star(gast.L("x"))), r("Bs", gast.S(gast.Plus(gast.L("x")), gast.Opt(gast.Star(gast.L("x")))))),
		// a re-reached match that spans a newline followed by multi-byte runes (positions after a cache hit)
		mk(r("S", gast.C(gast.S(gast.Lab("a", gast.Ref("B")), gast.L("!"), act(gast.Star(gast.Dot()), 1)), gast.S(gast.Lab("a", gast.Ref("B")), gast.L("?"), gast.Lab("b", gast.Ref("T")), act(gast.Star(gast.Dot()), 2)))),
			r("B", act(gast.S(gast.Plus(gast.Cl(gast.Chars("xé"))), gast.L("\n"), gast.Star(gast.Cl(gast.Chars("é世")))), 3)), r("T", gast.A(gast.Plus(gast.Cl(gast.Chars("zé\n"))), 4, mon.Spec{E: 1}))),
		// an erroring block re-run through alternatives with a common prefix, many erroneous items:
		// the error list (after de-duplication) is the same with and without the cache
		mk(r("SErr", gast.S(gast.Star(gast.S(gast.Ref("I"), gast.L(";"))), gast.Star(gast.Dot()))),
			r("I", gast.C(gast.S(gast.Ref("N"), gast.L("a")), gast.S(gast.Ref("N"), gast.L("b")), gast.S(gast.Ref("N"), gast.L("c")), gast.Ref("N"))),
			r("N", gast.A(gast.Cl(&gast.ClassSpec{Ranges: [][2]rune{{'0', '9'}}}), 1, mon.Spec{E: 1}))),
		// an action expression that reads a label bound before it in the enclosing sequence, reached at
		// one offset by an inner and an outer invocation of the rule (known finding F25 under Memoize)
		mk(r("R", gast.C(gast.S(gast.Lab("e", gast.S(gast.L("a"), gast.Ref("R"))), act(gast.AndE(gast.L("b")), 1)), gast.L("")))),
		mk(r("S", gast.S(gast.Ref("R"), gast.Star(gast.Dot()))), r("R", gast.C(gast.S(gast.Lab("e", gast.S(gast.Lab("b", gast.Dot()), gast.Lab("y", gast.Ref("R")))), act(gast.NotE(gast.NotE(gast.Dot())), 1)), act(gast.Star(gast.L("b")), 2)))),
	}
}

// C16: MaxExpressions bounds every parse.
func C16(c *Ctx) {
	if os.Getenv("PV_C16_ONLY_DEEP") != "" {
		// (development aid: run only the deep-nesting mini-check)
		c.c16Deep()
		return
	}
	c.Rule("grammars including non-terminating ones on purpose (repetitions over bodies that can succeed without consuming: (e?)*, (&e)*, (e*)+, ...) and terminating ones; budgets n from 1 to beyond the unbounded count, x Recover on/off; " +
		"oracle: the model with the same budget predicts the exact step at which the budget trips, hence the value (nil), the 'max number of expressions parsed' error as last error (or the propagated panic under Recover(false)), the block trace up to that step and ExprCnt; an unexhausted budget must give the unbounded model's result. " +
		"Memoize/Debug/Statistics variants are decided differentially against a large-budget run of the same configuration (C16B). A case that does not return is reported from the in-child watchdog with two samples of the live expression counter. " +
		"distinct_nontrivial = distinct (grammar, input, budget) where the budget is exhausted")
	p := pegProfile()
	p.AllowNullableRep = true
	p.W[gast.ZeroOrMore] = 14
	p.W[gast.OneOrMore] = 10
	p.W[gast.ZeroOrOne] = 12
	p.W[gast.Action] = 10
	p.W[gast.AndCode] = 7
	p.W[gast.NotCode] = 5
	p.W[gast.StateCode] = 4
	p.StateSpec = func(r *rand.Rand) mon.Spec { return mon.Spec{S: 1} }
	p.PEmptyLit = 12
	var os []OptSet
	os = append(os, OptSet{Name: "unbounded-safety-net"})
	for _, n := range []uint64{1, 2, 3, 5, 8, 13, 21, 40, 100, 400, 2000} {
		os = append(os, OptSet{Name: fmt.Sprintf("max=%d", n), MaxExpr: n})
		if n == 5 || n == 40 {
			os = append(os, OptSet{Name: fmt.Sprintf("max=%d,norecover", n), MaxExpr: n, NoRecover: true})
		}
	}
	cfg := &MCConfig{
		Profile: p, Grammars: c16Strata(), NGrammars: c.N(80, 600),
		FlagSets:  [][]string{{}, {"-optimize-parser"}},
		InputsPer: c.N(25, 60), ExhaustLimit: c.N(30, 100), ExhaustLen: 4,
		OptSets:    os,
		Compare:    CmpVal | CmpErrs | CmpOK | CmpTrace | CmpExprCnt | CmpPanic,
		NonTrivial: func(m *ref.Result) bool { return m.Budget },
		StalePS:    "F02-stale-pred-pos",
	}
	c.ModelCheck(cfg)
	// the same with inputs that are not valid UTF-8: the encoding errors recorded on the way do not
	// displace the budget error
	icfg := *cfg
	icfg.Invalid = true
	icfg.NGrammars = c.N(25, 250)
	icfg.OptSets = nil
	for _, n := range []uint64{2, 5, 13, 40, 400} {
		icfg.OptSets = append(icfg.OptSets, OptSet{Name: fmt.Sprintf("max=%d", n), MaxExpr: n})
		if n == 13 {
			icfg.OptSets = append(icfg.OptSets, OptSet{Name: "max=13,allowinvalid", MaxExpr: n, AllowInvalid: true})
		}
	}
	c.ModelCheck(&icfg)
	c.c16B()
	c.c16Deep()
}

// c16Deep: "with a budget that is not exhausted the result is identical to the unbounded parse" on
// inputs that nest rules thousands of levels deep (real vs real: the same parse with a practically
// unlimited budget, and under Debug(true) at a smaller depth).
func (c *Ctx) c16Deep() {
	g := &gast.Grammar{Rules: []*gast.Rule{
		{Name: "S", Expr: gast.S(gast.Ref("N"), gast.NotE(gast.Dot()))},
		{Name: "N", Expr: gast.C(gast.S(gast.L("("), gast.Ref("N"), gast.L(")")), gast.S(gast.L("["), gast.Ref("N"), gast.L("]")), gast.A(gast.L("x"), 1, mon.Spec{R: 2}))},
	}}
	g.Finalize()
	bt := c.BuildUnits([]*gast.Grammar{g}, [][]string{{}, {"-optimize-parser"}}, false, nil)
	defer bt.Close()
	var cases []*mon.Case
	type key struct {
		u  *Unit
		d  int
		ok bool
	}
	info := map[string]key{}
	for _, u := range bt.Units {
		if !u.OK {
			c.Broken("the deep-nesting grammar of C16 does not build: " + u.Fail)
			return
		}
		for _, d := range []int{500, 3000, 6000, 11000, 16000, 24000} {
			for _, closed := range []bool{true, false} {
				in := []byte(strings.Repeat("([", d/2) + "x" + strings.Repeat("])", d/2))
				if !closed {
					in = in[:len(in)-1]
				}
				base := fmt.Sprintf("%s/deep%d/%t", u.Pkg, d, closed)
				info[base] = key{u, d, closed}
				cases = append(cases, &mon.Case{ID: base + "/unbounded", Pkg: u.Pkg, Input: in, NoTrace: true},
					&mon.Case{ID: base + "/budget", Pkg: u.Pkg, Input: in, MaxExpr: 1 << 40, NoTrace: true})
				if d <= 6000 && !u.HasFlag("-optimize-parser") {
					cases = append(cases, &mon.Case{ID: base + "/budget-debug", Pkg: u.Pkg, Input: in, MaxExpr: 1 << 40, DebugQuiet: true, NoTrace: true},
						&mon.Case{ID: base + "/budget-memo", Pkg: u.Pkg, Input: in, MaxExpr: 1 << 40, Memo: true, NoTrace: true})
				}
			}
		}
	}
	res := bt.Run(cases, batch.RunOpts{MaxDeaths: 3})
	for base, k := range info {
		ref := res[base+"/unbounded"]
		if ref == nil || ref.Died != "" || ref.Timeout {
			c.Inconclusive("deep_unbounded_parse_did_not_finish")
			continue
		}
		for _, v := range []string{"/budget", "/budget-debug", "/budget-memo"} {
			r := res[base+v]
			if r == nil {
				continue
			}
			c.Eval(1)
			c.CovAdd("deep_nesting_parses_with_an_unexhausted_budget", 1)
			if r.Died != "" || r.Timeout {
				c.Inconclusive("deep_budget_parse_did_not_finish")
				continue
			}
			if r.Val != ref.Val || r.ErrNil != ref.ErrNil || r.ErrStr != ref.ErrStr {
				c.Report(&Violation{Class: "C16/deep-unexhausted-budget-differs", Summary: fmt.Sprintf("rules nested %d deep (input closed: %t, flags [%s]): the parse with MaxExpressions(1<<40)%s returns (%s, %q), the unbounded parse (%s, %q)", k.d, k.ok, k.u.FlagID, strings.TrimPrefix(v, "/budget"), trunc(r.Val), trunc(r.ErrStr), trunc(ref.Val), trunc(ref.ErrStr)),
					Grammar: k.u.Text, Flags: k.u.Flags})
			}
		}
	}
}

func c16Strata() []*gast.Grammar {
	mk := func(rules ...*gast.Rule) *gast.Grammar { return &gast.Grammar{Rules: rules} }
	r := func(n string, e *gast.Expr) *gast.Rule { return &gast.Rule{Name: n, Expr: e} }
	return []*gast.Grammar{
		mk(r("S", gast.S(gast.Star(gast.Opt(gast.L("a"))), gast.L("b")))),
		mk(r("S", gast.S(gast.L("x"), gast.Star(gast.AndE(gast.L("a"))), gast.L("b")))),
		mk(r("S", gast.S(gast.Plus(gast.Star(gast.L("a"))), gast.L("b")))),
		mk(r("S", gast.S(gast.Star(gast.Ref("E")), gast.L("b"))), r("E", gast.C(gast.L("a"), gast.L("")))),
		mk(r("S", gast.A(gast.Star(gast.S(gast.Opt(gast.L("a")), gast.A(gast.L(""), 2, mon.Spec{}))), 1, mon.Spec{}))),
		// repetitions whose operand is directly a code predicate / state block / predicate
		mk(r("S", gast.S(gast.Star(gast.AndC(1, mon.Spec{})), gast.L("b")))),
		mk(r("S", gast.S(gast.Opt(gast.L("a")), gast.Plus(gast.NotC(1, mon.Spec{B: 1})), gast.L("b")))),
		mk(r("S", gast.S(gast.Star(gast.St(1, mon.Spec{S: 1})), gast.L("b")))),
		mk(r("S", gast.S(gast.L("a"), gast.Star(gast.NotE(gast.L("z"))), gast.L("b")))),
		mk(r("S", gast.S(gast.Star(gast.Ref("G")), gast.L("b"))), r("G", gast.AndC(1, mon.Spec{}))),
		mk(r("S", gast.Star(gast.L("")))), mk(r("S", gast.S(gast.Plus(gast.Ref("P")), gast.L("b"))), r("P", gast.L(""))),
	}
}

// c16B: Memoize/Debug/Statistics x budgets, decided against a large-budget run of the same
// configuration (real vs real), with the watchdog observation for parses that never return.
func (c *Ctx) c16B() {
	rng := rand.New(rand.NewSource(c.Seed*31 + 16))
	p := pegProfile()
	p.AllowNullableRep = true
	p.W[gast.ZeroOrMore] = 14
	p.W[gast.ZeroOrOne] = 12
	p.W[gast.AndCode] = 7
	p.W[gast.NotCode] = 5
	p.W[gast.StateCode] = 4
	p.StateSpec = func(r *rand.Rand) mon.Spec { return mon.Spec{S: 1} }
	p.PEmptyLit = 12
	gs := c16Strata()
	for i := 0; i < c.N(40, 300); i++ {
		gs = append(gs, gast.Generate(rng, p))
	}
	c.c16BRun(gs, [][]string{{}}, false, rng)
	// left-recursive grammars (the leader's memo table is always on, expression memo is off inside
	// left-recursive rules): budgets must hold there too, with and without Memoize
	lr := c16LRStrata()
	for i := 0; i < c.N(14, 120); i++ {
		lr = append(lr, genLR(rng, i%2 == 1))
	}
	c.c16BRun(lr, [][]string{{"-support-left-recursion"}}, true, rng)
	// a handler whose recovery expression throws its own label again: unbounded recursion through
	// nothing but throw and recovery nodes (decided between real runs only: the model would recurse too)
	mk := func(rules ...*gast.Rule) *gast.Grammar { return &gast.Grammar{Rules: rules} }
	r := func(n string, e *gast.Expr) *gast.Rule { return &gast.Rule{Name: n, Expr: e} }
	rethrow := []*gast.Grammar{
		mk(r("S", gast.S(gast.Rec(gast.Ref("X"), gast.Thr("L1"), "L1"), gast.Star(gast.Dot()))), r("X", gast.C(gast.L("a"), gast.Thr("L1")))),
		mk(r("S", gast.S(gast.L("x"), gast.Rec(gast.Rec(gast.Ref("X"), gast.Thr("L2"), "L1"), gast.C(gast.L("!"), gast.Thr("L1")), "L2"), gast.Star(gast.Dot()))), r("X", gast.C(gast.L("a"), gast.Thr("L1")))),
	}
	// (moderate budgets only: the recursion is as deep as the budget, and Debug output per level would
	// make a large budget a question of patience, not of charging)
	for _, g := range rethrow {
		g.Finalize()
	}
	bt := c.BuildUnits(rethrow, [][]string{{}, {"-optimize-parser"}}, false, nil)
	defer bt.Close()
	var cs []*mon.Case
	for _, u := range bt.Units {
		if !u.OK {
			c.Report(&Violation{Class: "C16/rethrow-build", Summary: "a grammar whose recovery expression throws its own label does not build: " + u.Fail, Grammar: u.Text, Flags: u.Flags})
			continue
		}
		for _, in := range []string{"", "b", "xb", "a", "xa!"} {
			for _, n := range []uint64{1, 7, 50, 500, 3000} {
				for _, memo := range []bool{false, true} {
					if memo && u.HasFlag("-optimize-parser") {
						continue
					}
					cs = append(cs, &mon.Case{ID: fmt.Sprintf("rt/%s/%s/%d/%t", u.Pkg, in, n, memo), Pkg: u.Pkg, Input: []byte(in), MaxExpr: n, Memo: memo, MaxEvents: 50})
				}
			}
		}
	}
	res := bt.Run(cs, batch.RunOpts{MaxDeaths: 4})
	for _, k := range cs {
		r := res[k.ID]
		c.Eval(1)
		if r == nil {
			c.Inconclusive("no_result")
			continue
		}
		if r.Died != "" || (r.Timeout && r.Cnt1 == r.Cnt2) {
			c.Report(&Violation{Class: "C16/rethrow-unbounded", Summary: fmt.Sprintf("Parse with MaxExpressions(%d) on a grammar whose recovery expression throws its own label does not return with the budget error (died=%q timeout=%t counter %d/%d): input %q memo=%t", k.MaxExpr, trunc(r.Died), r.Timeout, r.Cnt1, r.Cnt2, k.Input, k.Memo), Input: k.Input, Case: k})
			continue
		}
		if r.Timeout {
			c.Inconclusive("rethrow_timeout_with_moving_counter")
			continue
		}
		budget := len(r.Errs) > 0 && r.Errs[len(r.Errs)-1].Inner == "max number of expressions parsed"
		if budget {
			c.Distinct("rethrow/" + k.ID)
			if r.ExprCnt > k.MaxExpr+1 || r.Val != "nil" {
				c.Report(&Violation{Class: "C16/rethrow-overrun", Summary: fmt.Sprintf("budget %d but %d expressions were evaluated (value %s): input %q", k.MaxExpr, r.ExprCnt, r.Val, k.Input), Input: k.Input, Case: k})
			}
		}
	}
}

func c16LRStrata() []*gast.Grammar {
	mk := func(rules ...*gast.Rule) *gast.Grammar { return &gast.Grammar{Rules: rules} }
	r := func(n string, e *gast.Expr) *gast.Rule { return &gast.Rule{Name: n, Expr: e} }
	idle := func() *gast.Expr { return gast.Star(gast.Opt(gast.L("x"))) }
	return []*gast.Grammar{
		mk(r("S", gast.S(gast.Ref("List"), gast.NotE(gast.Dot()))), r("List", gast.C(gast.S(gast.Ref("List"), gast.L(","), idle()), idle()))),
		// a repetition directly over a reference to a left-recursive rule that can match empty
		mk(r("S", gast.S(gast.Star(gast.Ref("E")), gast.NotE(gast.Dot()))), r("E", gast.C(gast.S(gast.Ref("E"), gast.L("x")), gast.Opt(gast.L("y"))))),
		mk(r("S", gast.S(gast.L("a"), gast.Plus(gast.S(gast.Ref("E"), gast.Opt(gast.L(";")))), gast.L("b"))), r("E", gast.C(gast.S(gast.Ref("E"), gast.L("x")), gast.Ref("F"))), r("F", gast.C(gast.S(gast.Ref("F"), gast.L("z")), gast.Star(gast.L("y"))))),
		mk(r("S", gast.Ref("Sum")), r("Sum", gast.C(gast.A(gast.S(gast.Lab("a", gast.Ref("Sum")), gast.L("+"), gast.Lab("b", gast.Cl(&gast.ClassSpec{Ranges: [][2]rune{{'0', '9'}}}))), 1, mon.Spec{}), gast.Cl(&gast.ClassSpec{Ranges: [][2]rune{{'0', '9'}}})))),
	}
}

func (c *Ctx) c16BRun(gs []*gast.Grammar, flagSets [][]string, isLR bool, rng *rand.Rand) {
	for _, g := range gs {
		g.Finalize()
	}
	bt := c.BuildUnits(gs, flagSets, false, func(int) bool { return isLR })
	defer bt.Close()
	for _, b := range bt.batches {
		if b != nil {
			b.Timeout = 4
		}
	}
	const big = 60000
	type key struct {
		u    *Unit
		in   []byte
		memo bool
		dbg  bool
		st   bool
		allow bool
		norec bool
	}
	var keys []key
	var phase1 []*mon.Case
	for _, u := range bt.Units {
		if !u.OK {
			continue
		}
		alpha := u.G.Alphabet()
		var ins [][]byte
		ins = append(ins, []byte{}, []byte("b"), []byte("ab"), []byte("xab"), []byte("x,x,,x"), []byte("1+2+3+4+5+6+7+8+9+1+2+3+4+5+6+7+8+9+1+2"))
		if isLR {
			ins = append(ins, lrInputs(u.G, rng, 6)...)
		}
		for i := 0; i < c.N(6, 14); i++ {
			ins = append(ins, gast.Mutate(rng, u.G.Sentence(rng, u.G.Rules[0].Name, alpha, 5), alpha, i%3 == 2))
		}
		for _, in := range ins {
			combos := [][5]bool{{true, false, false}, {true, false, true}, {false, true, false}, {true, true, true}, {false, false, false}}
			// "under every combination of the other runtime options": two more of the 32 subsets of
			// {Memoize, Debug, Statistics, AllowInvalidUTF8, Recover(false)} per input, rotating so
			// that every subset occurs many times per run
			for x := 0; x < c.N(1, 2); x++ {
				j := (len(keys)*7 + 3 + 13*x) % 32
				combos = append(combos, [5]bool{j&1 != 0, j&2 != 0, j&4 != 0, j&8 != 0, j&16 != 0})
			}
			for _, o := range combos {
				if o == [5]bool{} && !isLR {
					continue // the plain configuration is decided against the model in part A
				}
				k := key{u, in, o[0], o[1], o[2], o[3], o[4]}
				id := fmt.Sprintf("b1/%d", len(keys))
				keys = append(keys, k)
				c.CovSet("c16b_option_subsets", fmt.Sprintf("memo=%t,debug=%t,stats=%t,allowinvalid=%t,norecover=%t", o[0], o[1], o[2], o[3], o[4]))
				phase1 = append(phase1, &mon.Case{ID: id, Pkg: u.Pkg, Input: in, Memo: k.memo, Debug: k.dbg, Stats: k.st, AllowInvalid: k.allow, NoRecover: k.norec, MaxExpr: big, MaxEvents: 2000})
			}
		}
	}
	r1 := bt.Run(phase1, batch.RunOpts{MaxDeaths: 4})
	isBudget := func(r *mon.Result) bool {
		if r.Panic == "error:max number of expressions parsed" {
			return true // Recover(false): the budget is a panic and panics are let through
		}
		return len(r.Errs) > 0 && r.Errs[len(r.Errs)-1].Inner == "max number of expressions parsed"
	}
	var phase2 []*mon.Case
	type exp struct {
		k       key
		n       uint64
		exhaust bool
		base    *mon.Result
	}
	exps := map[string]exp{}
	for i, k := range keys {
		r := r1[fmt.Sprintf("b1/%d", i)]
		c.Eval(1)
		if r == nil {
			c.Inconclusive("no_result")
			continue
		}
		if r.Timeout || r.Died != "" {
			c.reportC16Hang(k.u, k.in, phase1[i], r, big)
			continue
		}
		var budgets []uint64
		if isBudget(r) {
			budgets = []uint64{1, 7, 100, 5000}
		} else {
			K := r.ExprCnt
			budgets = []uint64{1, K / 2, K - 1, K, K + 1, K + 50}
		}
		for _, n := range budgets {
			if n == 0 || n > big {
				continue
			}
			id := fmt.Sprintf("b2/%d/%d", i, n)
			exps[id] = exp{k: k, n: n, exhaust: isBudget(r) || n < r.ExprCnt, base: r}
			phase2 = append(phase2, &mon.Case{ID: id, Pkg: k.u.Pkg, Input: k.in, Memo: k.memo, Debug: k.dbg, Stats: k.st, AllowInvalid: k.allow, NoRecover: k.norec, MaxExpr: n, MaxEvents: 2000})
		}
		if !isBudget(r) && i%4 == 0 {
			// "practically unlimited" budgets, also when the caller's Stats struct was used before: a
			// terminating parse never exhausts them
			for j, n := range []uint64{math.MaxUint64, math.MaxUint64 - 1, math.MaxUint64 - 700, 1 << 63} {
				id := fmt.Sprintf("b2/%d/huge%d", i, j)
				exps[id] = exp{k: k, n: n, exhaust: false, base: r}
				phase2 = append(phase2, &mon.Case{ID: id, Pkg: k.u.Pkg, Input: k.in, Memo: k.memo, Debug: k.dbg, Stats: true, StatsPre: []uint64{0, 1, 777, 5}[j], AllowInvalid: k.allow, NoRecover: k.norec, MaxExpr: n, MaxEvents: 2000})
			}
		}
	}
	r2 := bt.Run(phase2, batch.RunOpts{MaxDeaths: 4})
	for _, cs := range phase2 {
		e := exps[cs.ID]
		r := r2[cs.ID]
		c.Eval(1)
		if r == nil {
			c.Inconclusive("no_result")
			continue
		}
		if r.Timeout || r.Died != "" {
			c.reportC16Hang(e.k.u, e.k.in, cs, r, e.n)
			continue
		}
		if e.exhaust {
			c.Distinct(fmt.Sprintf("B/%s", cs.ID))
			if !isBudget(r) || r.Val != "nil" {
				c.Report(&Violation{Class: "C16/memo-budget-not-reported", Summary: fmt.Sprintf("budget %d is below the %d evaluations this configuration needs, but no 'max number of expressions parsed' error (or a non-nil value) came back: grammar %q input %q memo=%t debug=%t stats=%t: val %s err %q",
					e.n, e.base.ExprCnt, gast.Short(e.k.u.G), e.k.in, e.k.memo, e.k.dbg, e.k.st, r.Val, r.ErrStr), Grammar: e.k.u.Text, Input: e.k.in, Case: cs})
			} else if r.ExprCnt > e.n+1 {
				c.Report(&Violation{Class: "C16/memo-overrun", Summary: fmt.Sprintf("budget %d but %d expressions were evaluated: grammar %q input %q", e.n, r.ExprCnt, gast.Short(e.k.u.G), e.k.in), Grammar: e.k.u.Text, Input: e.k.in, Case: cs})
			}
			continue
		}
		if r.Val != e.base.Val || r.ErrStr != e.base.ErrStr || r.Panic != e.base.Panic {
			c.Report(&Violation{Class: "C16/memo-unexhausted-differs", Summary: fmt.Sprintf("budget %d is not exhausted (needs %d) but the result differs from the large-budget run: grammar %q input %q: %s / %q vs %s / %q",
				e.n, e.base.ExprCnt, gast.Short(e.k.u.G), e.k.in, r.Val, r.ErrStr, e.base.Val, e.base.ErrStr), Grammar: e.k.u.Text, Input: e.k.in, Case: cs})
		}
	}
	c.CovAdd("c16b_cases", len(phase1)+len(phase2))
}

func (c *Ctx) reportC16Hang(u *Unit, in []byte, cs *mon.Case, r *mon.Result, n uint64) {
	if r.Timeout && r.Cnt1 == r.Cnt2 && r.Cnt1 <= n {
		c.Report(&Violation{Class: "C16/hang-frozen-counter", Summary: fmt.Sprintf("Parse with MaxExpressions(%d) did not return: the live expression counter stood at %d on two samples one second apart while the parse was still running (a loop that charges nothing): grammar %q input %q memo=%t debug=%t stats=%t",
			n, r.Cnt1, gast.Short(u.G), in, cs.Memo, cs.Debug, cs.Stats), Grammar: u.Text, Flags: u.Flags, Input: in, Case: cs,
			Sig: c16Sig(u.G, cs)})
		return
	}
	if r.Died != "" {
		c.Report(&Violation{Class: "C16/died", Summary: fmt.Sprintf("Parse with MaxExpressions(%d) killed the process: %s; grammar %q input %q", n, trunc(r.Died), gast.Short(u.G), in), Grammar: u.Text, Input: in, Case: cs})
		return
	}
	c.Inconclusive("watchdog_moving_counter")
}

func c16Sig(g *gast.Grammar, cs *mon.Case) []string { return nil }

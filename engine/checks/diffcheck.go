package checks

import (
	"fmt"
	"strings"

	"verif/engine/batch"
	"verif/engine/gast"
	"verif/engine/mon"
)

// DiffConfig configures a real-vs-real differential check: every grammar is generated under
// each flag set of Variants; the same cases run on all variants; variant 0 is the reference.
type DiffConfig struct {
	Grammars     []*gast.Grammar
	Variants     [][]string                                // flag sets; index 0 = reference
	VarFor       func(gi int, g *gast.Grammar) [][]string  // optional per-grammar variants (overrides Variants)
	Cases        func(gi int, g *gast.Grammar) []*mon.Case // Pkg/ID are filled in by the driver
	Compare      func(ref, other *mon.Result, cs *mon.Case, g *gast.Grammar) []diff
	IsLR         func(gi int) bool
	Class        string
	Chunk        int
	OnRef        func(gi int, g *gast.Grammar, cs *mon.Case, r *mon.Result) // hook on every reference result (coverage, extra oracles)
	NonTrivial   func(r *mon.Result, cs *mon.Case) bool
	SkipNotBuilt bool // a variant pigeon rejects / that does not compile is counted, not reported
	Sig          func(g *gast.Grammar, variant []string, d diff) []string
	OnUnit       func(u *Unit)                                                            // called for every built unit (e.g. inspection of the emitted source)
	CaseOK       func(variant []string, cs *mon.Case) bool                                // optional: whether a case applies to a variant
	SigCase      func(g *gast.Grammar, variant []string, d diff, base *mon.Case) []string // like Sig, with the case as drawn (before options a variant lacks were cleared)
}

// DiffCheck runs the differential pipeline.
func (c *Ctx) DiffCheck(cfg *DiffConfig) {
	chunk := cfg.Chunk
	if chunk == 0 {
		chunk = 60
	}
	for _, g := range cfg.Grammars {
		g.Finalize()
	}
	for lo := 0; lo < len(cfg.Grammars); lo += chunk {
		hi := lo + chunk
		if hi > len(cfg.Grammars) {
			hi = len(cfg.Grammars)
		}
		c.diffChunk(cfg, lo, hi)
		if c.NViol() > 25 || c.enoughAlready() {
			return
		}
	}
}

func (c *Ctx) diffChunk(cfg *DiffConfig, lo, hi int) {
	gs := cfg.Grammars[lo:hi]
	// units: per grammar per variant. BuildUnits takes one list of flag sets for all grammars, so
	// build per distinct variant list.
	type gv struct {
		gi int
		vs [][]string
	}
	groups := map[string][]int{}
	varOf := make([][][]string, len(gs))
	for i, g := range gs {
		vs := cfg.Variants
		if cfg.VarFor != nil {
			vs = cfg.VarFor(lo+i, g)
		}
		varOf[i] = vs
		key := fmt.Sprint(vs)
		groups[key] = append(groups[key], i)
	}
	unitOf := map[string]*Unit{} // "gi/vi"
	var builts []*Built
	pkgBase := 0
	for _, idxs := range groups {
		var sub []*gast.Grammar
		for _, i := range idxs {
			sub = append(sub, gs[i])
		}
		vs := varOf[idxs[0]]
		var isLR func(int) bool
		if cfg.IsLR != nil {
			isLR = func(k int) bool { return cfg.IsLR(lo + idxs[k]) }
		}
		bt := c.buildUnitsBase(sub, vs, false, isLR, pkgBase)
		pkgBase += len(sub) * len(vs)
		builts = append(builts, bt)
		for _, u := range bt.Units {
			if cfg.OnUnit != nil && u.OK {
				cfg.OnUnit(u)
			}
			gi := idxs[u.GIdx]
			vi := -1
			for k, f := range vs {
				if strings.Join(f, " ") == u.FlagID {
					vi = k
				}
			}
			unitOf[fmt.Sprintf("%d/%d", gi, vi)] = u
		}
	}
	defer func() {
		for _, b := range builts {
			b.Close()
		}
	}()
	type run struct {
		gi, vi int
		cs     *mon.Case
		base   *mon.Case
	}
	var runs []run
	casesByBuilt := map[*Built][]*mon.Case{}
	builtOf := map[*Unit]*Built{}
	for _, b := range builts {
		for _, u := range b.Units {
			builtOf[u] = b
		}
	}
	for i, g := range gs {
		ref := unitOf[fmt.Sprintf("%d/0", i)]
		if ref == nil || !ref.OK {
			c.CovSet("reference_not_built", shortFail(failOf(ref)))
			continue
		}
		base := cfg.Cases(lo+i, g)
		for vi := range varOf[i] {
			u := unitOf[fmt.Sprintf("%d/%d", i, vi)]
			if u == nil || !u.OK {
				if vi > 0 {
					c.CovSet("variant_not_built", shortFail(failOf(u)))
					if !cfg.SkipNotBuilt {
						c.Report(&Violation{Class: c.Prop + "/variant-not-built", Summary: fmt.Sprintf("flags %v: %s; the reference flags %v build fine; grammar %q", varOf[i][vi], failOf(u), varOf[i][0], gast.Short(g)),
							Grammar: textOf(u), Flags: varOf[i][vi], Sig: sigOf(cfg, g, varOf[i][vi], diff{"variant-not-built", "", failOf(u)})})
					}
				}
				continue
			}
			for ci, bc := range base {
				if cfg.CaseOK != nil && !cfg.CaseOK(varOf[i][vi], bc) {
					continue
				}
				cc := *bc
				cc.Pkg = u.Pkg
				cc.ID = fmt.Sprintf("%s/%d", u.Pkg, ci)
				if (cc.Memo || cc.Debug || cc.Stats) && u.HasFlag("-optimize-parser") {
					cc.Memo, cc.Debug, cc.Stats = false, false, false
				}
				runs = append(runs, run{i, vi, &cc, bc})
				casesByBuilt[builtOf[u]] = append(casesByBuilt[builtOf[u]], &cc)
			}
		}
	}
	res := map[string]*mon.Result{}
	for b, cs := range casesByBuilt {
		for k, v := range b.Run(cs, batch.RunOpts{}) {
			res[k] = v
		}
	}
	// index reference results by (gi, base case)
	refRes := map[string]*mon.Result{}
	for _, r := range runs {
		if r.vi == 0 {
			refRes[fmt.Sprintf("%d/%p", r.gi, r.base)] = res[r.cs.ID]
		}
	}
	for _, r := range runs {
		g := gs[r.gi]
		out := res[r.cs.ID]
		c.Eval(1)
		if out == nil {
			c.Inconclusive("no_result")
			continue
		}
		if r.vi == 0 {
			if cfg.OnRef != nil {
				cfg.OnRef(lo+r.gi, g, r.cs, out)
			}
			if cfg.NonTrivial == nil || cfg.NonTrivial(out, r.cs) {
				c.Distinct(fmt.Sprintf("%d/%s/%s/%t%t", lo+r.gi, r.cs.Input, r.cs.Entry, r.cs.Memo, r.cs.AllowInvalid))
			}
			continue
		}
		ref := refRes[fmt.Sprintf("%d/%p", r.gi, r.base)]
		if ref == nil {
			c.Inconclusive("no_reference_result")
			continue
		}
		c.CovSet("variants", strings.Join(varOf[r.gi][0], " ")+" vs "+strings.Join(varOf[r.gi][r.vi], " "))
		ds := cfg.Compare(ref, out, r.cs, g)
		if len(ds) == 0 {
			if len(ref.Trace) > 1 || (ref.ErrNil && len(r.cs.Input) > 1) {
				c.mu.Lock()
				n := len(c.samples)
				c.mu.Unlock()
				if n < 5 {
					tr := ref.Trace
					if len(tr) > 4 {
						tr = tr[:4]
					}
					c.Sample(map[string]any{"grammar": gast.Short(g), "reference_flags": strings.Join(varOf[r.gi][0], " "), "variant_flags": strings.Join(varOf[r.gi][r.vi], " "),
						"input": fmt.Sprintf("%q", r.cs.Input), "entry": r.cs.Entry, "memoize": r.cs.Memo, "value_both": trunc(ref.Val), "errors_both": trunc(ref.ErrStr), "events_head": tr})
				}
			}
			continue
		}
		d := ds[0]
		c.Report(&Violation{Class: c.Prop + "/" + d.field, Summary: fmt.Sprintf("%s differs between flags [%s] and [%s] on grammar %q input %q entry %q: %v vs %v",
			d.field, strings.Join(varOf[r.gi][0], " "), strings.Join(varOf[r.gi][r.vi], " "), gast.Short(g), r.cs.Input, r.cs.Entry, trunc(d.want), trunc(d.got)),
			Grammar: unitOf[fmt.Sprintf("%d/%d", r.gi, r.vi)].Text, Flags: varOf[r.gi][r.vi], Input: r.cs.Input, Case: r.cs, Want: d.want, Got: d.got,
			Extra: map[string]any{"reference_flags": varOf[r.gi][0], "short": gast.Short(g), "all_diffs": ds}, Sig: append(sigOf(cfg, g, varOf[r.gi][r.vi], d), sigCaseOf(cfg, g, varOf[r.gi][r.vi], d, r.base)...)})
	}
}

func sigOf(cfg *DiffConfig, g *gast.Grammar, variant []string, d diff) []string {
	if cfg.Sig == nil {
		return nil
	}
	return cfg.Sig(g, variant, d)
}

func sigCaseOf(cfg *DiffConfig, g *gast.Grammar, variant []string, d diff, base *mon.Case) []string {
	if cfg.SigCase == nil || base == nil {
		return nil
	}
	return cfg.SigCase(g, variant, d, base)
}

func failOf(u *Unit) string {
	if u == nil {
		return "no unit"
	}
	return u.Fail
}

func textOf(u *Unit) string {
	if u == nil {
		return ""
	}
	return u.Text
}

// stdCompare compares value, error list, end, panic (and optionally trace / final state).
func stdCompare(trace, state bool) func(ref, other *mon.Result, cs *mon.Case, g *gast.Grammar) []diff {
	return func(a, b *mon.Result, cs *mon.Case, g *gast.Grammar) []diff {
		var ds []diff
		if a.Died != "" || b.Died != "" || a.Timeout || b.Timeout {
			if (a.Died != "") != (b.Died != "") || a.Timeout != b.Timeout {
				ds = append(ds, diff{"termination", fmt.Sprintf("died=%q timeout=%t", trunc(a.Died), a.Timeout), fmt.Sprintf("died=%q timeout=%t", trunc(b.Died), b.Timeout)})
			}
			return ds
		}
		if a.Panic != b.Panic {
			ds = append(ds, diff{"panic", a.Panic, b.Panic})
		}
		if a.Val != b.Val {
			ds = append(ds, diff{"value", a.Val, b.Val})
		} else if a.Shape != b.Shape && a.Panic == "" {
			ds = append(ds, diff{"value-shape", a.Val + " with nil/empty structure " + a.Shape, b.Shape})
		}
		if a.ErrStr != b.ErrStr {
			ds = append(ds, diff{"errors", a.ErrStr, b.ErrStr})
		}
		if a.Panic == "" && a.End != b.End {
			ds = append(ds, diff{"end", a.End, b.End})
		}
		if trace {
			if d := traceDiff(a.Trace, b.Trace); d != nil {
				ds = append(ds, *d)
			}
			if a.GLog != b.GLog {
				ds = append(ds, diff{"globalstore", a.GLog, b.GLog})
			}
		}
		if state && a.FinalState != "" && b.FinalState != "" && a.FinalState != b.FinalState && a.Panic == "" {
			ds = append(ds, diff{"finalstate", a.FinalState, b.FinalState})
		}
		return ds
	}
}

package checks

import (
	"math/rand"

	"verif/engine/gast"
	"verif/engine/mon"
	"verif/engine/ref"
)

// genLRTail is genLR with a start rule that keeps parsing after the left-recursive part with
// plain expressions (any-matcher, classes, optional groups, predicates): whatever a discarded
// growth attempt touched (errors, invalid bytes, state, farthest-failure bookkeeping) is touched
// again on the kept path.
func genLRTail(r *rand.Rand, indirect bool) *gast.Grammar {
	g := genLR(r, indirect)
	id := 900
	nid := func() int { id++; return id }
	var tail *gast.Expr
	switch r.Intn(4) {
	case 0:
		tail = gast.Star(gast.Dot())
	case 1:
		tail = gast.S(gast.Star(gast.C(gast.S(gast.Cl(gast.Chars("+-*/%")), gast.Ref("At")), gast.Dot())), gast.NotE(gast.Dot()))
	case 2:
		tail = gast.S(gast.Opt(gast.A(gast.S(gast.Cl(gast.Chars("+-*/%^~=<>")), gast.Dot()), nid(), mon.Spec{R: 2})), gast.Star(gast.Cl(&gast.ClassSpec{Chars: []rune("()"), Inverted: true})), gast.NotE(gast.Dot()))
	default:
		tail = gast.S(gast.NotE(gast.L("!")), gast.Star(gast.S(gast.NotE(gast.L("~~")), gast.Dot())))
	}
	g.Rules[0] = &gast.Rule{Name: "S", Expr: gast.S(gast.Lab("a", gast.Ref("E1")), tail)}
	g.Finalize()
	return g
}

// lrPass runs a model check over left-recursive grammars (generated with
// -support-left-recursion, with and without -optimize-parser) for a property whose main pass uses
// non-left-recursive grammars only. Block traces are not compared (the runtime legitimately
// evaluates discarded growth attempts).
func (c *Ctx) lrPass(seedSalt int64, n int, compare int, optsets []OptSet, invalid bool, nonTrivial func(*ref.Result) bool) {
	rng := rand.New(rand.NewSource(c.Seed*1009 + seedSalt))
	var gs []*gast.Grammar
	for i := 0; i < n; i++ {
		gs = append(gs, genLRTail(rng, i%3 == 2))
	}
	gs = append(c08Strata()[1:], gs...)
	c.runKnownF06b()
	c.ModelCheck(&MCConfig{
		Profile: pegProfile(), Grammars: gs, NGrammars: 0, LR: true,
		FlagSets:  [][]string{{"-support-left-recursion"}, {"-support-left-recursion", "-optimize-parser"}},
		InputsPer: 0, ExhaustLimit: c.N(40, 200), ExhaustLen: 4, Invalid: invalid,
		ExtraInputs: func(g *gast.Grammar, r *rand.Rand) [][]byte {
			var out [][]byte
			alpha := g.Alphabet()
			for _, in := range lrInputs(g, r, c.N(40, 120)) {
				if len(in) > 40 {
					continue
				}
				out = append(out, in)
				if invalid {
					out = append(out, gast.Mutate(r, in, alpha, true), append(append([]byte{}, in...), gast.InvalidSeqs[r.Intn(len(gast.InvalidSeqs))]...))
				}
			}
			return out
		},
		OptSets:    optsets,
		Compare:    compare,
		NonTrivial: nonTrivial,
	})
}

// runKnownF06b executes the leader-memo witness of known finding F06 (no Memoize option needed):
// the inner left-recursive result E2@3 is computed inside a growth attempt of E2@0 that is
// discarded (its errors are rolled back) and is then served from the leader memo on the kept path.
func (c *Ctx) runKnownF06b() {
	found := false
	for _, id := range c.KnownIDs() {
		if id == "F06-lr-memo-lost-error" {
			found = true
		}
	}
	if !found {
		return
	}
	num := gast.Plus(gast.Cl(&gast.ClassSpec{Ranges: [][2]rune{{'0', '9'}}}))
	g := &gast.Grammar{Rules: []*gast.Rule{
		{Name: "S", Expr: gast.S(gast.Lab("a", gast.Ref("E2")), gast.Star(gast.C(gast.S(gast.L("-"), gast.Ref("At")), gast.Dot())))},
		{Name: "E2", Expr: gast.C(gast.A(gast.S(gast.Lab("a", gast.Ref("E2")), gast.L("-"), gast.Lab("b", gast.Ref("At"))), 1, mon.Spec{}), gast.Ref("At"))},
		{Name: "At", Expr: gast.C(gast.A(num, 2, mon.Spec{E: 1}), gast.S(gast.L("("), gast.Ref("E2"), gast.L(")")))},
	}}
	g.Finalize()
	bt := c.BuildUnits([]*gast.Grammar{g}, [][]string{{"-support-left-recursion"}}, false, func(int) bool { return true })
	defer bt.Close()
	if !bt.Units[0].OK {
		c.Broken("F06 leader-memo witness does not build: " + bt.Units[0].Fail)
		return
	}
	in := []byte("1-(2x")
	r := bt.Run([]*mon.Case{{ID: "f06b", Pkg: bt.Units[0].Pkg, Input: in}}, runOptsDefault)["f06b"]
	m := ref.Run(g, in, ref.Opts{LR: true})
	c.MarkKnownStillFails("F06-lr-memo-lost-error", r == nil || len(r.Errs) != len(m.Errs))
	c.Eval(1)
}

package checks

import (
	"fmt"
	"math/rand"
	"regexp"
	"strconv"
	"strings"
	"time"
	"unicode/utf8"

	"verif/engine/mon"
)

// ---- abstract syntax drawn first ---------------------------------------------------------------

type anode struct {
	kind   string // Choice Seq Action Labeled And Not ZeroOrOne ZeroOrMore OneOrMore RuleRef Lit Class Any AndCode NotCode StateCode Throw Recovery
	kids   []*anode
	name   string   // RuleRef name, Labeled label, Throw label
	labels []string // Recovery
	val    string   // Lit value
	ic     bool
	cls    *aclass
	code   string // code block text incl. braces
	// filled by the speller
	off     int // offset of the node's position as the front-end defines it
	codeOff int
	raw     string // class raw text
}

type aclass struct {
	units   []rune // members in source order; a '-' is spelled raw unless escDash says otherwise
	escDash []bool // parallel to units: this '-' is written as an escape (\x2d ...): a plain character
	chars   []rune // derived from units by the grammar's reading (see deriveClass)
	ranges  [][2]rune
	classes []string
	inv, ic bool
}

// deriveClass reads the member sequence the way grammar/pigeon.peg does: at each position a
// range (member, raw '-', member) is tried first, otherwise the member is a single character.
func deriveClass(c *aclass) {
	c.chars, c.ranges = nil, nil
	u := c.units
	for len(c.escDash) < len(u) {
		c.escDash = append(c.escDash, false)
	}
	for i := 0; i < len(u); {
		if i+2 < len(u) && u[i+1] == '-' && !c.escDash[i+1] {
			c.ranges = append(c.ranges, [2]rune{u[i], u[i+2]})
			i += 3
			continue
		}
		c.chars = append(c.chars, u[i])
		i++
	}
}

type arule struct {
	name    string
	display string // decoded display name ("" = none)
	expr    *anode
	off     int
	dispRaw string
}

var c03Level = map[string]int{"Recovery": 0, "Choice": 1, "Action": 2, "Seq": 3, "Labeled": 4, "Throw": 4, "And": 5, "Not": 5,
	"ZeroOrOne": 6, "ZeroOrMore": 6, "OneOrMore": 6}

func alevel(n *anode) int {
	if l, ok := c03Level[n.kind]; ok {
		return l
	}
	return 7
}

type c03gen struct {
	r      *rand.Rand
	names  []string
	ucl    []string
	subset bool // restrict to what the bootstrap front-end understands
}

var c03Idents = []string{"A", "b", "Rule1", "x_y", "_u", "Ünï", "日本", "aB9", "Z", "r٣", "whitespace", "EOF", "Expr", "term2"}

// failure labels (%{l}, //{l,m}) are plain identifier names, not Go identifiers of the generated code:
// words that are reserved for rule names and expression labels are fine here
var c03FailLabels = append(append([]string{}, c03Idents...), "error", "default", "string", "func", "type", "nil", "range", "len", "map", "true")
var c03LabelNames = []string{"a", "bb", "lbl", "x1", "v_", "é", "first", "rest"}
var c03Runes = []rune("abAZ09 _-^]\\\"'`{}[]()/*+?!&#%:;.,\n\t\r\x00\x7fé世😀  ßẞ\u0080\ud7ff\ue000\ufffd\uffff\U0010fffe\U0010ffff")

func (g *c03gen) expr(depth int) *anode {
	r := g.r
	if depth <= 0 {
		return g.primary()
	}
	k14 := r.Intn(14)
	if g.subset && (k14 == 10 || k14 == 11) {
		k14 = 12
	}
	switch k14 {
	case 0, 1:
		n := &anode{kind: "Choice"}
		for i := 0; i < 2+r.Intn(3); i++ {
			n.kids = append(n.kids, g.expr(depth-1))
		}
		return n
	case 2, 3, 4:
		n := &anode{kind: "Seq"}
		for i := 0; i < 2+r.Intn(3); i++ {
			n.kids = append(n.kids, g.expr(depth-1))
		}
		return n
	case 5:
		return &anode{kind: "Action", kids: []*anode{g.expr(depth - 1)}, code: g.code()}
	case 6:
		return &anode{kind: "Labeled", name: c03LabelNames[r.Intn(len(c03LabelNames))], kids: []*anode{g.expr(depth - 1)}}
	case 7:
		return &anode{kind: []string{"And", "Not"}[r.Intn(2)], kids: []*anode{g.expr(depth - 1)}}
	case 8, 9:
		return &anode{kind: []string{"ZeroOrOne", "ZeroOrMore", "OneOrMore"}[r.Intn(3)], kids: []*anode{g.expr(depth - 1)}}
	case 10:
		n := &anode{kind: "Recovery", kids: []*anode{g.expr(depth - 1), g.expr(depth - 1)}}
		for i := 0; i < 1+r.Intn(3); i++ {
			n.labels = append(n.labels, c03FailLabels[r.Intn(len(c03FailLabels))])
		}
		return n
	case 11:
		return &anode{kind: "Throw", name: c03FailLabels[r.Intn(len(c03FailLabels))]}
	}
	return g.primary()
}

func (g *c03gen) primary() *anode {
	r := g.r
	switch r.Intn(9) {
	case 0, 1, 2:
		n := &anode{kind: "Lit", ic: r.Intn(4) == 0}
		k := r.Intn(4)
		var sb strings.Builder
		for i := 0; i < k; i++ {
			sb.WriteRune(g.pickRune())
		}
		n.val = sb.String()
		return n
	case 3, 4:
		c := &aclass{inv: r.Intn(3) == 0, ic: r.Intn(3) == 0}
		pickm := func() rune {
			for {
				x := g.pickRune()
				if x != '\n' {
					return x
				}
			}
		}
		for i := 0; i < r.Intn(5); i++ {
			switch r.Intn(6) {
			case 0:
				c.units = append(c.units, '-')
				for len(c.escDash) < len(c.units)-1 {
					c.escDash = append(c.escDash, false)
				}
				c.escDash = append(c.escDash, r.Intn(3) == 0)
			case 1, 2:
				c.units = append(c.units, pickm(), '-', pickm())
			default:
				c.units = append(c.units, pickm())
			}
		}
		deriveClass(c)
		for i := 0; i < r.Intn(3); i++ {
			c.classes = append(c.classes, g.ucl[r.Intn(len(g.ucl))])
		}
		return &anode{kind: "Class", cls: c}
	case 5:
		return &anode{kind: "Any"}
	case 6, 7:
		return &anode{kind: "RuleRef", name: g.names[r.Intn(len(g.names))]}
	}
	if g.subset {
		return &anode{kind: "Any"}
	}
	return &anode{kind: []string{"AndCode", "NotCode", "StateCode"}[r.Intn(3)], code: g.code()}
}

var c03CodeBits = []string{
	"return nil, nil", "x := map[string]int{\"a\": 1}", "if a { b() } else { c() }", "s := \"}{\"", "t := `{{ raw } `", "r := '{'", "q := '\\''",
	"// comment with } brace\n", "/* { unbalanced in comment */", "/** } **/", "/***/", "for { break }", "f(func() { g() })", "u := \"esc \\\" } quote\"", "\n\n", "\t", "é := 世",
	"z := \"\\\\\"", "",
	"switch r { case '\\\\', '{': f() }", "c := '\\\\'; d := '}'", "if r == '\\\\' || r == '\\'' || r == '{' { esc() }",
}

var c03SubsetCodeBits = []string{"return nil, nil", "if a { b() } else { c() }", "for { break }", "f(func() { g() })", "x := 1", "é := 世", "",
	"\n\tx := 1\n\treturn x, nil\n", "\r\n\tif a {\r\n\t\tb()\r\n\t}\r\n", "a()\r b()", "\n\n",
	"p := \"C:\\\\\"", "r := '\\\\'", "s := \"a\\\"b\" + `c\\`", "q := '\\''; t := \"\\\\\\\"\""}

// pickRune draws a rune for a literal or class. The hand-written bootstrap scanner rejects the
// escape of U+E000 (its own scan_test.go lists '\\ue000' among the invalid cases), so that rune is
// not part of the bootstrap subset.
func (g *c03gen) pickRune() rune {
	for {
		x := c03Runes[g.r.Intn(len(c03Runes))]
		if g.subset && x == 0xE000 {
			continue
		}
		return x
	}
}

func (g *c03gen) code() string {
	if g.subset {
		return "{ " + c03SubsetCodeBits[g.r.Intn(len(c03SubsetCodeBits))] + " }"
	}
	var sb strings.Builder
	sb.WriteString("{")
	for i := 0; i < g.r.Intn(4); i++ {
		sb.WriteString(" ")
		sb.WriteString(c03CodeBits[g.r.Intn(len(c03CodeBits))])
		if g.r.Intn(3) == 0 {
			sb.WriteString(";")
		}
	}
	sb.WriteString(" }")
	return sb.String()
}

// ---- spelling ----------------------------------------------------------------------------------

type speller struct {
	r      *rand.Rand
	sb     strings.Builder
	subset bool // bootstrap subset: blanks and tabs only, no comments, no newline inside a rule
	// comments: with subset, also write one-line block comments at blank sites and line comments after
	// rules - outside the subset as pinned, used by C20's probe texts
	comments bool
}

func (s *speller) off() int { return s.sb.Len() }

// ws writes optional blank space / comments allowed at a `__` site. need: at least a separator.
func (s *speller) ws(need bool) {
	r := s.r
	if s.subset {
		k := r.Intn(3)
		if need && k == 0 {
			k = 1
		}
		s.sb.WriteString(strings.Repeat(" ", k))
		if s.comments && r.Intn(3) == 0 {
			if str := s.sb.String(); len(str) > 0 && str[len(str)-1] == '/' {
				s.sb.WriteString(" ")
			}
			s.sb.WriteString([]string{"/* c } { */", "/***/", "/** doc **/", "/* a * b ** c */", "/* // */", "/* was: Digit* / Word */", "/* x*/", "/* * / * */"}[r.Intn(8)])
			s.sb.WriteString(" ")
		}
		return
	}
	n := r.Intn(3)
	if need && n == 0 {
		n = 1
	}
	for i := 0; i < n; i++ {
		if str := s.sb.String(); len(str) > 0 && str[len(str)-1] == '/' {
			s.sb.WriteString(" ") // "/" followed by a comment would read as "//"
		}
		switch r.Intn(9) {
		case 0:
			s.sb.WriteString("\n")
		case 1:
			s.sb.WriteString("\t")
		case 2:
			s.sb.WriteString([]string{" /* c } { */ ", "/***/", " /** doc **/ ", "/* a * b ** c */", " /* // */ ", "/*\n * banner\n **/"}[r.Intn(6)])
		case 3:
			s.sb.WriteString(" // line comment } ' \" \n")
		case 4:
			s.sb.WriteString("\r\n  ")
		case 5:
			s.sb.WriteString("/**/")
			if need {
				s.sb.WriteString(" ")
			}
		default:
			s.sb.WriteString(" ")
		}
	}
}

func hexd(n int) string { return "0123456789abcdefABCDEF"[n : n+1] }

// runeForm spells one rune inside a quoted literal (q = '"' or '\”) or a class (q = ']').
func (s *speller) runeForm(x rune, q rune) string {
	r := s.r
	simple := map[rune]string{'\a': `\a`, '\b': `\b`, '\f': `\f`, '\n': `\n`, '\r': `\r`, '\t': `\t`, '\v': `\v`, '\\': `\\`}
	mustEscape := x == '\\' || x == '\n' || x == q || (q == ']' && x == ']') || x == utf8.RuneError && false
	var forms []string
	if !mustEscape {
		forms = append(forms, string(x), string(x), string(x))
	}
	if e, ok := simple[x]; ok {
		forms = append(forms, e)
	}
	if x == q && q != ']' {
		forms = append(forms, `\`+string(q))
	}
	if q == ']' && x == ']' {
		forms = append(forms, `\]`)
	}
	if x < 0x80 {
		forms = append(forms, fmt.Sprintf(`\x%02x`, x), fmt.Sprintf(`\%03o`, x))
		if r.Intn(2) == 0 {
			forms = append(forms, fmt.Sprintf(`\x%02X`, x))
		}
	}
	if x <= 0xFFFF && !(x >= 0xD800 && x <= 0xDFFF) {
		forms = append(forms, fmt.Sprintf(`\u%04x`, x))
	}
	forms = append(forms, fmt.Sprintf(`\U%08x`, x))
	if x >= 0x80 && q == '"' && x != utf8.RuneError {
		// in a quoted literal \xNN and \NNN are BYTES: a non-ASCII rune can be written as the escapes
		// of its UTF-8 encoding
		var hx, oc string
		for _, b := range []byte(string(x)) {
			hx += fmt.Sprintf(`\x%02x`, b)
			oc += fmt.Sprintf(`\%03o`, b)
		}
		forms = append(forms, hx, oc)
	}
	return forms[r.Intn(len(forms))]
}

func (s *speller) literal(val string, ic bool) string {
	r := s.r
	var out string
	rs := []rune(val)
	kind := r.Intn(3)
	if kind == 1 && len(rs) != 1 {
		kind = 0
	}
	if kind == 2 && (strings.ContainsAny(val, "`\r") || !utf8.ValidString(val)) {
		kind = 0
	}
	switch kind {
	case 0:
		var sb strings.Builder
		sb.WriteByte('"')
		for _, x := range rs {
			sb.WriteString(s.runeForm(x, '"'))
		}
		sb.WriteByte('"')
		out = sb.String()
	case 1:
		out = "'" + s.runeForm(rs[0], '\'') + "'"
	case 2:
		out = "`" + val + "`"
		if !s.subset && r.Intn(3) == 0 {
			// carriage returns inside a raw literal are discarded (Go notation): write some that are not
			// part of the value
			k := r.Intn(len(val) + 1)
			for k < len(val) && !utf8.RuneStart(val[k]) {
				k++
			}
			out = "`" + val[:k] + "\r" + val[k:] + "`"
			if i := strings.IndexByte(val, '\n'); i >= 0 {
				out = "`" + val[:i] + "\r" + val[i:] + "`"
			}
		}
	}
	if ic {
		out += "i"
	}
	return out
}

func (s *speller) class(c *aclass) string {
	var sb strings.Builder
	sb.WriteByte('[')
	if c.inv {
		sb.WriteByte('^')
	}
	for i, x := range c.units {
		f := "-"
		if x != '-' {
			f = s.runeForm(x, ']')
		} else if i < len(c.escDash) && c.escDash[i] {
			f = []string{`\x2d`, `\055`, `\u002d`, `\U0000002d`, `\x2D`}[s.r.Intn(5)]
		}
		if i == 0 && !c.inv && f == "^" {
			f = `\x5e`
		}
		sb.WriteString(f)
	}
	for _, u := range c.classes {
		if len(u) == 1 && s.r.Intn(2) == 0 {
			sb.WriteString(`\p` + u)
		} else {
			sb.WriteString(`\p{` + u + `}`)
		}
	}
	sb.WriteByte(']')
	if c.ic {
		sb.WriteByte('i')
	}
	return sb.String()
}

// emit writes node n requiring binding strength >= min; returns the offset where its printed
// form starts (the parenthesis when it is wrapped).
func (s *speller) emit(n *anode, min int) int {
	wrap := alevel(n) < min || (s.r.Intn(9) == 0 && n.kind != "Throw")
	start := s.off()
	if wrap {
		s.sb.WriteString("(")
		s.ws(false)
		s.emitBare(n)
		s.ws(false)
		s.sb.WriteString(")")
		return start
	}
	s.emitBare(n)
	return start
}

func (s *speller) emitBare(n *anode) {
	switch n.kind {
	case "Recovery":
		// left-associative: a recovery on the left needs no parentheses
		n.off = s.emit(n.kids[0], 0)
		s.ws(false)
		s.sb.WriteString("//{")
		s.ws(false)
		for i, l := range n.labels {
			if i > 0 {
				s.ws(false)
				s.sb.WriteString(",")
				s.ws(false)
			}
			s.sb.WriteString(l)
		}
		s.ws(false)
		s.sb.WriteString("}")
		s.ws(false)
		s.emit(n.kids[1], 1)
	case "Choice":
		for i, k := range n.kids {
			if i > 0 {
				s.ws(false)
				s.sb.WriteString("/")
				s.ws(false)
			}
			o := s.emit(k, 2)
			if i == 0 {
				n.off = o
			}
		}
	case "Action":
		n.off = s.emit(n.kids[0], 3)
		s.ws(false)
		n.codeOff = s.off()
		s.sb.WriteString(n.code)
	case "Seq":
		for i, k := range n.kids {
			if i > 0 {
				s.ws(true)
			}
			o := s.emit(k, 4)
			if i == 0 {
				n.off = o
			}
		}
	case "Labeled":
		n.off = s.off()
		s.sb.WriteString(n.name)
		s.ws(false)
		s.sb.WriteString(":")
		s.ws(false)
		s.emit(n.kids[0], 5)
	case "Throw":
		n.off = s.off()
		s.sb.WriteString("%{" + n.name + "}")
	case "And", "Not":
		n.off = s.off()
		s.sb.WriteString(map[string]string{"And": "&", "Not": "!"}[n.kind])
		s.ws(false)
		s.emit(n.kids[0], 6)
	case "ZeroOrOne", "ZeroOrMore", "OneOrMore":
		n.off = s.emit(n.kids[0], 7)
		s.ws(false)
		s.sb.WriteString(map[string]string{"ZeroOrOne": "?", "ZeroOrMore": "*", "OneOrMore": "+"}[n.kind])
	case "RuleRef":
		n.off = s.off()
		s.sb.WriteString(n.name)
	case "Lit":
		n.off = s.off()
		s.sb.WriteString(s.literal(n.val, n.ic))
	case "Class":
		n.off = s.off()
		n.raw = s.class(n.cls)
		s.sb.WriteString(n.raw)
	case "Any":
		n.off = s.off()
		s.sb.WriteString(".")
	case "AndCode", "NotCode", "StateCode":
		n.off = s.off()
		s.sb.WriteString(map[string]string{"AndCode": "&", "NotCode": "!", "StateCode": "#"}[n.kind])
		s.ws(false)
		n.codeOff = s.off()
		s.sb.WriteString(n.code)
	}
}

// needsSep: two adjacent tokens that would fuse need a separator; handled by ws(true) in Seq.

func (s *speller) grammar(init string, rules []*arule) (initOff int) {
	s.ws(false)
	initOff = -1
	if init != "" {
		initOff = s.off()
		s.sb.WriteString(init)
		// EOS after the initializer
		k3 := s.r.Intn(3)
		if s.subset && k3 == 2 {
			k3 = 1
		}
		switch k3 {
		case 0:
			s.sb.WriteString(" ;")
		case 1:
			s.sb.WriteString("\n")
		default:
			s.sb.WriteString("  // after init\n")
		}
		s.ws(false)
	}
	for i, ru := range rules {
		ru.off = s.off()
		s.sb.WriteString(ru.name)
		s.ws(false)
		if ru.display != "" {
			ru.dispRaw = s.literal(ru.display, false)
			s.sb.WriteString(ru.dispRaw)
			s.ws(false)
		}
		s.sb.WriteString([]string{"=", "<-", "←", "⟵"}[s.r.Intn(4)])
		s.ws(false)
		if s.subset && s.r.Intn(4) == 0 {
			s.sb.WriteString("\n  ") // a newline is tolerated directly after the rule operator
		}
		s.emit(ru.expr, 0)
		last := i == len(rules)-1
		if s.subset {
			if s.comments && s.r.Intn(4) == 0 {
				s.sb.WriteString(" // trailing * / comment\n")
				continue
			}
			s.sb.WriteString([]string{"\n", ";", " ;\n", "\n\n", "; "}[s.r.Intn(5)])
			continue
		}
		switch k := s.r.Intn(5); {
		case k == 0:
			s.ws(false)
			s.sb.WriteString(";")
		case k == 1 && last:
			// EOF terminates the last rule
		case k == 2:
			s.sb.WriteString(" /* same line */ // trailing\n")
		default:
			s.sb.WriteString("\n")
		}
		s.ws(false)
	}
	return initOff
}

// ---- expected dump -----------------------------------------------------------------------------

func posStr(text []byte, off int) string {
	l, c := mon.PosFn(text, off)
	return fmt.Sprintf("%d:%d:%d", l, c, off)
}

func expectDump(text []byte, init string, initOff int, rules []*arule, withPos bool) []string {
	var out []string
	p := func(off int) string {
		if !withPos {
			return "-"
		}
		return posStr(text, off)
	}
	out = append(out, "Grammar "+p(0))
	if init != "" {
		out = append(out, fmt.Sprintf(" Init %s code=%q", p(initOff), init))
	}
	for _, ru := range rules {
		l := fmt.Sprintf(" Rule %s name=%q namepos=%s", p(ru.off), ru.name, p(ru.off))
		if ru.display != "" {
			if withPos {
				l += fmt.Sprintf(" display=%q", ru.dispRaw)
			} else {
				l += fmt.Sprintf(" display=%q", ru.display)
			}
		}
		out = append(out, l)
		out = expectExpr(out, ru.expr, 2, p, withPos)
	}
	return out
}

func expectExpr(out []string, n *anode, depth int, p func(int) string, withPos bool) []string {
	ind := strings.Repeat(" ", depth)
	cp := func() string { return p(n.codeOff) }
	switch n.kind {
	case "Choice", "Seq", "And", "Not", "ZeroOrOne", "ZeroOrMore", "OneOrMore":
		out = append(out, fmt.Sprintf("%s%s %s", ind, n.kind, p(n.off)))
	case "Action":
		out = append(out, fmt.Sprintf("%sAction %s code=%q codepos=%s", ind, p(n.off), n.code, cp()))
	case "Labeled":
		out = append(out, fmt.Sprintf("%sLabeled %s label=%q", ind, p(n.off), n.name))
	case "RuleRef":
		out = append(out, fmt.Sprintf("%sRuleRef %s name=%q", ind, p(n.off), n.name))
	case "Lit":
		out = append(out, fmt.Sprintf("%sLit %s val=%q ic=%t", ind, p(n.off), n.val, n.ic))
	case "Class":
		var rg []rune
		for _, x := range n.cls.ranges {
			rg = append(rg, x[0], x[1])
		}
		raw := n.raw
		if !withPos {
			raw = "-"
		}
		cl := n.cls.classes
		if cl == nil {
			cl = []string{}
		}
		out = append(out, fmt.Sprintf("%sClass %s raw=%q chars=%q ranges=%q classes=%q ic=%t inv=%t", ind, p(n.off), raw, string(n.cls.chars), string(rg), cl, n.cls.ic, n.cls.inv))
	case "Any":
		out = append(out, fmt.Sprintf("%sAny %s", ind, p(n.off)))
	case "AndCode", "NotCode", "StateCode":
		out = append(out, fmt.Sprintf("%s%s %s code=%q codepos=%s", ind, n.kind, p(n.off), n.code, cp()))
	case "Throw":
		out = append(out, fmt.Sprintf("%sThrow %s label=%q", ind, p(n.off), n.name))
	case "Recovery":
		out = append(out, fmt.Sprintf("%sRecovery %s labels=%q", ind, p(n.off), n.labels))
	}
	for _, k := range n.kids {
		out = expectExpr(out, k, depth+1, p, withPos)
	}
	return out
}

var (
	rePos  = regexp.MustCompile(`(namepos|codepos)=\d+:\d+:\d+`)
	reRaw  = regexp.MustCompile(`raw="(?:[^"\\]|\\.)*"`)
	reDisp = regexp.MustCompile(`display="(?:[^"\\]|\\.)*"`)
)

// stripDump removes positions (and class raw text / display quoting) from an actual dump so that
// two dumps can be compared structurally.
func stripDump(lines []string) []string {
	out := make([]string, 0, len(lines))
	for _, l := range lines {
		f := strings.Fields(l)
		if len(f) == 0 {
			continue
		}
		ind := l[:len(l)-len(strings.TrimLeft(l, " "))]
		// field 1 is the position
		rest := strings.TrimLeft(l, " ")
		i := strings.IndexByte(rest, ' ')
		if i < 0 {
			out = append(out, l)
			continue
		}
		kind := rest[:i]
		tail := rest[i+1:]
		j := strings.IndexByte(tail, ' ')
		attrs := ""
		if j >= 0 {
			attrs = tail[j:]
		}
		attrs = rePos.ReplaceAllString(attrs, "$1=-")
		if kind == "Class" {
			attrs = reRaw.ReplaceAllString(attrs, `raw="-"`)
		}
		if kind == "Rule" {
			attrs = reDisp.ReplaceAllStringFunc(attrs, func(m string) string {
				q := strings.TrimPrefix(m, "display=")
				raw, err := strconv.Unquote(q)
				if err != nil {
					return m
				}
				dec, err := strconv.Unquote(raw)
				if err != nil {
					return m
				}
				return fmt.Sprintf("display=%q", dec)
			})
		}
		out = append(out, ind+kind+" -"+attrs)
	}
	return out
}

type c03job struct {
	text         string
	init         string
	initOff      int
	rules        []*arule
	nodes, kinds int
	structOnly   bool
}

// C03: the front-end accepts the documented syntax and builds the denoted AST.
func C03(c *Ctx) {
	c.Rule("ASTs over all 18 expression kinds are drawn first, then a spelling of each: rule operators =, <-, U+2190, U+27F5; display names in any quoting; terminators ';', newline, comment+newline, EOF; blank space, newlines and both comment kinds at every separator site; parentheses exactly where precedence requires them plus redundant groups; " +
		"every literal rune in one of its admissible forms (raw, simple escape, octal, \\x, \\u, \\U; three quotings; i suffix); class members likewise with ranges, \\], \\pX and \\p{Name}, ^ and i; code blocks with nested braces, strings, raw strings, rune literals and comments containing braces; the byte offset of every node's first token is recorded. " +
		"oracle: the hooked front-end (go build -tags verif, PIGEON_VERIF_MODE=astdump) must accept the text (and plain pigeon -x must exit 0) and dump exactly the drawn AST with posfn(first-token offset) for every node; the canonical re-print of the dumped AST must dump to the same tree again (round trip). " +
		"distinct_nontrivial = distinct spellings whose AST has >=6 nodes and >=3 different kinds")
	rng := rand.New(rand.NewSource(c.Seed*271 + 3))
	hook, err := c.W.Hooked()
	if err != nil {
		c.Broken(err.Error())
		return
	}
	ucl := c03UClasses(c, hook)
	if len(ucl) == 0 {
		return
	}
	nAST := c.N(1200, 8000)
	spellings := c.N(3, 5)
	type job = c03job
	var jobs []*job
	for i := 0; i < nAST; i++ {
		g := &c03gen{r: rng, ucl: ucl}
		nr := 1 + rng.Intn(4)
		perm := rng.Perm(len(c03Idents))
		for k := 0; k < nr; k++ {
			g.names = append(g.names, c03Idents[perm[k]])
		}
		var rules []*arule
		for k := 0; k < nr; k++ {
			ru := &arule{name: g.names[k], expr: g.expr(1 + rng.Intn(4))}
			if rng.Intn(3) == 0 {
				ru.display = []string{"friendly name", "q\"uote", "tab\there", "ünï", "a`b", "100% %d %s"}[rng.Intn(6)]
			}
			rules = append(rules, ru)
		}
		init := ""
		if rng.Intn(2) == 0 {
			init = "{\npackage p\n\nfunc h() map[string]int { return map[string]int{\"}\": 1} } // }\n}"
		}
		for sp := 0; sp < spellings; sp++ {
			s := &speller{r: rand.New(rand.NewSource(rng.Int63()))}
			io := s.grammar(init, rules)
			text := s.sb.String()
			// positions live in the nodes, which are shared between spellings: snapshot the expectation now
			jb := &job{text: text, init: init, initOff: io}
			jb.rules = cloneRules(rules)
			cnt := map[string]bool{}
			for _, ru := range rules {
				walkA(ru.expr, func(n *anode) { jb.nodes++; cnt[n.kind] = true })
			}
			jb.kinds = len(cnt)
			jobs = append(jobs, jb)
		}
	}
	jobs = append(jobs, c03Fixed()...)
	kindsSeen := map[string]int{}
	parallel(len(jobs), 16, func(i int) {
		jb := jobs[i]
		text := []byte(jb.text)
		res := c.W.RunPigeon(hook, text, 30*time.Second, []string{"PIGEON_VERIF_MODE=astdump"})
		c.Eval(1)
		if jb.nodes >= 6 && jb.kinds >= 3 {
			c.Distinct(jb.text)
		}
		report := func(class, msg string, want, got any) {
			c.Report(&Violation{Class: "C03/" + class, Summary: msg, Grammar: jb.text, Want: want, Got: got, Extra: map[string]any{"text_quoted": fmt.Sprintf("%q", jb.text)}})
		}
		if res.Exit != 0 {
			report("rejected", fmt.Sprintf("a grammar text in the documented syntax is rejected: %s; text %q", firstLine(string(res.Stdout)+res.Stderr), jb.text), "accepted", string(res.Stdout)+res.Stderr)
			return
		}
		got := strings.Split(strings.TrimRight(string(res.Stdout), "\n"), "\n")
		want := expectDump(text, jb.init, jb.initOff, jb.rules, true)
		cmpGot := got
		if jb.structOnly {
			want = expectDump(text, jb.init, jb.initOff, jb.rules, false)
			cmpGot = stripDump(got)
		}
		if d := firstLineDiff(want, cmpGot); d != "" {
			report("ast", fmt.Sprintf("the dumped AST differs from the AST the text denotes: %s; text %q", d, jb.text), want, got)
			return
		}
		c.mu.Lock()
		for _, ru := range jb.rules {
			walkA(ru.expr, func(n *anode) { kindsSeen[n.kind]++ })
		}
		c.mu.Unlock()
		// plain binary, -x
		if i%5 == 0 {
			r2 := c.W.RunPigeon(c.W.Pigeon, text, 30*time.Second, nil, "-x")
			if r2.Exit != 0 {
				report("x-rejected", fmt.Sprintf("pigeon -x exits %d on a text the hooked front-end accepts: %s", r2.Exit, firstLine(r2.Stderr)), 0, r2.Exit)
			}
		}
		// round trip: canonical re-print of the dumped AST
		re := reprintDump(got)
		r3 := c.W.RunPigeon(hook, []byte(re), 30*time.Second, []string{"PIGEON_VERIF_MODE=astdump"})
		if r3.Exit != 0 {
			report("roundtrip-rejected", fmt.Sprintf("the canonical re-print of an accepted AST is rejected: %s; reprint %q", firstLine(string(r3.Stdout)+r3.Stderr), re), "accepted", string(r3.Stdout))
			return
		}
		got2 := strings.Split(strings.TrimRight(string(r3.Stdout), "\n"), "\n")
		if d := firstLineDiff(stripDump(got), stripDump(got2)); d != "" {
			report("roundtrip", fmt.Sprintf("re-parsing the printed AST gives a different AST: %s; original %q reprint %q", d, jb.text, re), stripDump(got), stripDump(got2))
		}
	})
	// size is no syntax: a long grammar of ordinary rules (about 200 KB) and one with moderately nested
	// groups are accepted by the command as they are by the front-end (with and without -cache)
	{
		var sb strings.Builder
		sb.WriteString("{\npackage p\n}\n\n")
		for k := 0; k < 3300; k++ {
			fmt.Fprintf(&sb, "Rule%d \"rule %d\" <- \"kw%d\"i [a-z0-9_]+ ( Rule%d / 'x' !. )? // %d\n", k, k, k, (k+1)%3300, k)
		}
		long := []byte(sb.String())
		nested := []byte("{\npackage p\n}\n\nA <- " + strings.Repeat("( ", 11) + "'a' B" + strings.Repeat(" )", 11) + "\nB <- 'b'\n")
		for _, t := range [][]byte{long, nested} {
			for _, fl := range [][]string{{"-x"}, {"-x", "-cache"}} {
				r := c.W.RunPigeon(c.W.Pigeon, t, 120*time.Second, nil, fl...)
				c.Eval(1)
				c.CovAdd("large_texts_given_to_the_command", 1)
				if r.Exit != 0 && !r.Killed {
					c.Report(&Violation{Class: "C03/large-text-rejected", Summary: fmt.Sprintf("pigeon %v exits %d on a %d-byte grammar in the documented syntax: %s", fl, r.Exit, len(t), firstLine(r.Stderr)), Grammar: string(truncBytes(t, 2000)), Flags: fl})
				}
			}
		}
	}
	c.Cov("kinds_in_accepted_asts", kindsSeen)
	c.Cov("unicode_class_names_available", len(ucl))
	if len(jobs) > 0 {
		c.Sample(map[string]any{"text": jobs[len(jobs)-1].text, "expected_dump_head": headOf(expectDump([]byte(jobs[len(jobs)-1].text), jobs[len(jobs)-1].init, jobs[len(jobs)-1].initOff, jobs[len(jobs)-1].rules, true), 8)})
		c.Sample(map[string]any{"text": jobs[len(jobs)/2].text})
	}
}

func headOf(l []string, n int) []string {
	if len(l) > n {
		return l[:n]
	}
	return l
}

func firstLineDiff(want, got []string) string {
	n := len(want)
	if len(got) < n {
		n = len(got)
	}
	for i := 0; i < n; i++ {
		if want[i] != got[i] {
			return fmt.Sprintf("line %d: want %q got %q", i, want[i], got[i])
		}
	}
	if len(want) != len(got) {
		return fmt.Sprintf("want %d nodes got %d", len(want), len(got))
	}
	return ""
}

func walkA(n *anode, f func(*anode)) {
	f(n)
	for _, k := range n.kids {
		walkA(k, f)
	}
}

func cloneA(n *anode) *anode {
	c := *n
	c.kids = make([]*anode, len(n.kids))
	for i, k := range n.kids {
		c.kids[i] = cloneA(k)
	}
	return &c
}

func cloneRules(rs []*arule) []*arule {
	out := make([]*arule, len(rs))
	for i, r := range rs {
		c := *r
		c.expr = cloneA(r.expr)
		out[i] = &c
	}
	return out
}

func c03UClasses(c *Ctx, hook string) []string {
	res := c.W.RunPigeon(hook, nil, 30*time.Second, []string{"PIGEON_VERIF_MODE=uclasses"})
	if res.Exit != 0 {
		c.Broken("hook mode uclasses failed: " + res.Stderr)
		return nil
	}
	return strings.Fields(string(res.Stdout))
}

// ---- dump parsing and canonical re-print -------------------------------------------------------

type dnode struct {
	depth int
	kind  string
	attrs map[string]string // decoded string attributes
	list  []string          // labels
	kids  []*dnode
}

func parseDump(lines []string) []*dnode {
	var roots []*dnode
	var stack []*dnode
	for _, l := range lines {
		t := strings.TrimLeft(l, " ")
		if t == "" {
			continue
		}
		d := &dnode{depth: len(l) - len(t), attrs: map[string]string{}}
		f := strings.SplitN(t, " ", 3)
		d.kind = f[0]
		if len(f) == 3 {
			rest := f[2]
			for rest != "" {
				rest = strings.TrimLeft(rest, " ")
				eq := strings.IndexByte(rest, '=')
				if eq < 0 {
					break
				}
				key := rest[:eq]
				rest = rest[eq+1:]
				switch {
				case strings.HasPrefix(rest, "\""):
					q, err := strconv.QuotedPrefix(rest)
					if err != nil {
						rest = ""
						break
					}
					v, _ := strconv.Unquote(q)
					d.attrs[key] = v
					rest = rest[len(q):]
				case strings.HasPrefix(rest, "["):
					rest = rest[1:]
					for !strings.HasPrefix(rest, "]") && rest != "" {
						rest = strings.TrimLeft(rest, " ")
						q, err := strconv.QuotedPrefix(rest)
						if err != nil {
							rest = ""
							break
						}
						v, _ := strconv.Unquote(q)
						if key == "labels" {
							d.list = append(d.list, v)
						}
						rest = rest[len(q):]
					}
					rest = strings.TrimPrefix(rest, "]")
				default:
					i := strings.IndexByte(rest, ' ')
					if i < 0 {
						i = len(rest)
					}
					d.attrs[key] = rest[:i]
					rest = rest[i:]
				}
			}
		}
		for len(stack) > 0 && stack[len(stack)-1].depth >= d.depth {
			stack = stack[:len(stack)-1]
		}
		if len(stack) == 0 {
			roots = append(roots, d)
		} else {
			stack[len(stack)-1].kids = append(stack[len(stack)-1].kids, d)
		}
		stack = append(stack, d)
	}
	return roots
}

func dlevel(d *dnode) int {
	if l, ok := c03Level[d.kind]; ok {
		return l
	}
	return 7
}

func reprintExpr(sb *strings.Builder, d *dnode, min int) {
	if dlevel(d) < min {
		sb.WriteString("( ")
		reprintExpr(sb, d, 0)
		sb.WriteString(" )")
		return
	}
	switch d.kind {
	case "Recovery":
		reprintExpr(sb, d.kids[0], 0)
		sb.WriteString(" //{" + strings.Join(d.list, ", ") + "} ")
		reprintExpr(sb, d.kids[1], 1)
	case "Choice":
		for i, k := range d.kids {
			if i > 0 {
				sb.WriteString(" / ")
			}
			reprintExpr(sb, k, 2)
		}
	case "Action":
		reprintExpr(sb, d.kids[0], 3)
		sb.WriteString(" " + d.attrs["code"])
	case "Seq":
		for i, k := range d.kids {
			if i > 0 {
				sb.WriteString(" ")
			}
			reprintExpr(sb, k, 4)
		}
	case "Labeled":
		sb.WriteString(d.attrs["label"] + ":")
		reprintExpr(sb, d.kids[0], 5)
	case "Throw":
		sb.WriteString("%{" + d.attrs["label"] + "}")
	case "And":
		sb.WriteString("&")
		reprintExpr(sb, d.kids[0], 6)
	case "Not":
		sb.WriteString("!")
		reprintExpr(sb, d.kids[0], 6)
	case "ZeroOrOne", "ZeroOrMore", "OneOrMore":
		reprintExpr(sb, d.kids[0], 7)
		sb.WriteString(map[string]string{"ZeroOrOne": "?", "ZeroOrMore": "*", "OneOrMore": "+"}[d.kind])
	case "RuleRef":
		sb.WriteString(d.attrs["name"])
	case "Lit":
		sb.WriteString(strconv.Quote(d.attrs["val"]))
		if d.attrs["ic"] == "true" {
			sb.WriteString("i")
		}
	case "Class":
		sb.WriteString(d.attrs["raw"])
	case "Any":
		sb.WriteString(".")
	case "AndCode":
		sb.WriteString("&" + d.attrs["code"])
	case "NotCode":
		sb.WriteString("!" + d.attrs["code"])
	case "StateCode":
		sb.WriteString("#" + d.attrs["code"])
	}
}

// reprintDump prints the dumped AST canonically (one rule per line, minimal parentheses).
func reprintDump(lines []string) string {
	roots := parseDump(lines)
	var sb strings.Builder
	if len(roots) == 0 {
		return ""
	}
	for _, k := range roots[0].kids {
		switch k.kind {
		case "Init":
			sb.WriteString(k.attrs["code"] + "\n\n")
		case "Rule":
			sb.WriteString(k.attrs["name"])
			if disp, ok := k.attrs["display"]; ok {
				sb.WriteString(" " + disp)
			}
			sb.WriteString(" <- ")
			if len(k.kids) > 0 {
				reprintExpr(&sb, k.kids[0], 0)
			}
			sb.WriteString("\n")
		}
	}
	return sb.String()
}

// c03Fixed: hand-written texts with their expected ASTs (structure only) for syntax corners the
// generator avoids: '-' and '^' as class members, the rule-boundary lookahead, empty literal and
// classes, several rules on one line.
func c03Fixed() []*c03job {
	cls := func(chars string, ranges [][2]rune, inv bool) *anode {
		return &anode{kind: "Class", cls: &aclass{chars: []rune(chars), ranges: ranges, inv: inv}}
	}
	_ = deriveClass
	seq := func(k ...*anode) *anode { return &anode{kind: "Seq", kids: k} }
	lit := func(v string) *anode { return &anode{kind: "Lit", val: v} }
	return []*c03job{
		{text: "A = [-a] [a-] [^-a] [a^] [a-c-e] [a-c-]\n", structOnly: true, nodes: 7, kinds: 3, rules: []*arule{{name: "A", expr: seq(
			cls("-a", nil, false), cls("a-", nil, false), cls("-a", nil, true), cls("a^", nil, false),
			cls("-e", [][2]rune{{'a', 'c'}}, false), cls("-", [][2]rune{{'a', 'c'}}, false))}}},
		{text: "A = B\nB \"disp\" = 'x'\nC <- B\n  B\n", structOnly: true, nodes: 6, kinds: 3, rules: []*arule{
			{name: "A", expr: &anode{kind: "RuleRef", name: "B"}},
			{name: "B", display: "disp", expr: lit("x")},
			{name: "C", expr: seq(&anode{kind: "RuleRef", name: "B"}, &anode{kind: "RuleRef", name: "B"})}}},
		{text: "A = \"\" [] [^] ``i\n", structOnly: true, nodes: 6, kinds: 3, rules: []*arule{{name: "A", expr: seq(lit(""), cls("", nil, false), cls("", nil, true), &anode{kind: "Lit", val: "", ic: true})}}},
		// the i suffix directly followed by an identifier, a prefix operator or another literal: the
		// suffix belongs to the matcher before it, the identifier is the next sequence item
		{text: "A = \"x\"iTail [a-f]iEnd 'y'i!Tail `z`i&End[q]i\"r\"i\nTail = 't'\nEnd = 'e'i;\n", structOnly: true, nodes: 14, kinds: 6, rules: []*arule{
			{name: "A", expr: seq(&anode{kind: "Lit", val: "x", ic: true}, &anode{kind: "RuleRef", name: "Tail"},
				&anode{kind: "Class", cls: &aclass{ranges: [][2]rune{{'a', 'f'}}, ic: true}}, &anode{kind: "RuleRef", name: "End"},
				&anode{kind: "Lit", val: "y", ic: true}, &anode{kind: "Not", kids: []*anode{{kind: "RuleRef", name: "Tail"}}},
				&anode{kind: "Lit", val: "z", ic: true}, &anode{kind: "And", kids: []*anode{{kind: "RuleRef", name: "End"}}},
				&anode{kind: "Class", cls: &aclass{chars: []rune("q"), ic: true}}, &anode{kind: "Lit", val: "r", ic: true})},
			{name: "Tail", expr: lit("t")}, {name: "End", expr: &anode{kind: "Lit", val: "e", ic: true}}}},
		{text: "A = 'a' ; B = 'b';C='c'", structOnly: true, nodes: 6, kinds: 3, rules: []*arule{{name: "A", expr: lit("a")}, {name: "B", expr: lit("b")}, {name: "C", expr: lit("c")}}},
		{text: "A = a:(b:'c') !(&(!'d')) ('e'?)+ / ( 'f' / 'g' ) 'h' {x} / 'i' //{l} 'j' / 'k' //{m,n} 'o'\n", structOnly: true, nodes: 20, kinds: 9, rules: []*arule{{name: "A", expr: &anode{kind: "Recovery", labels: []string{"m", "n"}, kids: []*anode{
			{kind: "Recovery", labels: []string{"l"}, kids: []*anode{
				{kind: "Choice", kids: []*anode{
					seq(&anode{kind: "Labeled", name: "a", kids: []*anode{{kind: "Labeled", name: "b", kids: []*anode{lit("c")}}}},
						&anode{kind: "Not", kids: []*anode{{kind: "And", kids: []*anode{{kind: "Not", kids: []*anode{lit("d")}}}}}},
						&anode{kind: "OneOrMore", kids: []*anode{{kind: "ZeroOrOne", kids: []*anode{lit("e")}}}}),
					{kind: "Action", code: "{x}", kids: []*anode{seq(&anode{kind: "Choice", kids: []*anode{lit("f"), lit("g")}}, lit("h"))}},
					lit("i")}},
				{kind: "Choice", kids: []*anode{lit("j"), lit("k")}}}},
			lit("o")}}}}},
	}
}

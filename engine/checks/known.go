package checks

import (
	"encoding/json"
	"os"
)

// KnownFinding is one entry of /verif/known_findings.json (committed, never written at run time).
type KnownFinding struct {
	ID        string   `json:"id"`
	Property  string   `json:"property"`
	Status    string   `json:"status"` // known | fixed
	What      string   `json:"what"`
	Also      []string `json:"also_properties,omitempty"` // other properties under which the same defect is observable
	Signature string   `json:"signature,omitempty"`       // narrow class of witnesses counted under this finding
	Witness   string   `json:"witness,omitempty"`         // human-readable witness (the executable one lives in witnesses.go under the same id)
	Commit    string   `json:"commit,omitempty"`
	Record    string   `json:"record,omitempty"` // "fixed: property=<id> <commit> <what failed>"

	stillFails bool
}

// KnownFile is the file layout.
type KnownFile struct {
	Findings []*KnownFinding `json:"findings"`
}

// LoadKnown reads the known-findings file (a missing file is an empty list).
func LoadKnown(path string) ([]*KnownFinding, error) {
	b, err := os.ReadFile(path)
	if os.IsNotExist(err) {
		return nil, nil
	}
	if err != nil {
		return nil, err
	}
	var f KnownFile
	if err := json.Unmarshal(b, &f); err != nil {
		return nil, err
	}
	return f.Findings, nil
}

// MarkKnownStillFails is called by a check after running the witness of a known finding.
func (c *Ctx) MarkKnownStillFails(id string, fails bool) {
	for _, k := range c.known {
		if k.ID == id {
			k.stillFails = fails
		}
	}
}

// KnownIDs lists the ids of findings with status "known" for this property.
func (c *Ctx) KnownIDs() []string {
	var out []string
	for _, k := range c.known {
		if k.Status == "known" {
			out = append(out, k.ID)
		}
	}
	return out
}

package checks

import (
	"crypto/sha256"
	"encoding/json"
	"fmt"
	"strings"
	"time"

	"verif/engine/batch"
	"verif/engine/mon"
)

// replay regenerates the parser of the stored grammar text with the stored flags from the
// current tree, runs the stored case and prints expected vs. observed.
func replay(v *Violation) int {
	fmt.Printf("property %s class %s\n%s\n", v.Prop, v.Class, v.Summary)
	if v.Grammar == "" {
		fmt.Println("(no executable case stored; see the file for the witness)")
		return 0
	}
	w, err := batch.NewWorkspace()
	if err != nil {
		fmt.Println("cannot build:", err)
		return 2
	}
	defer w.Close()
	if v.Case == nil {
		// tool-level witness: run pigeon (plain and hooked front-end) on the stored text and flags
		for i := 0; i < 3; i++ {
			g := w.Gen(v.Grammar, v.Flags...)
			fmt.Printf("run %d: pigeon %v -> exit %d, %d bytes of output (sha256 %x), stderr: %s\n", i+1, v.Flags, g.Exit, len(g.Stdout), sha256.Sum256(g.Stdout), firstLine(g.Stderr))
		}
		if hook, err := w.Hooked(); err == nil {
			d := w.RunPigeon(hook, []byte(v.Grammar), 30*time.Second, []string{"PIGEON_VERIF_MODE=astdump"})
			fmt.Printf("front-end AST dump (exit %d):\n%s\n", d.Exit, trunc(string(d.Stdout)))
		}
		fmt.Printf("expected: %v\nstored observation: %v\n", v.Want, v.Got)
		return 0
	}
	g := w.Gen(v.Grammar, v.Flags...)
	if g.Exit != 0 {
		fmt.Printf("pigeon exit %d: %s\n", g.Exit, g.Stderr)
		return 1
	}
	opt := false
	for _, f := range v.Flags {
		if f == "-optimize-parser" {
			opt = true
		}
	}
	b := w.NewBatch(false)
	b.Add(&batch.Pkg{Name: v.Case.Pkg, Src: g.Stdout, Optimized: opt, HasState: strings.Contains(v.Grammar, "#{") || !opt, HasMemo: !opt})
	if out, err := b.Build(); err != nil {
		fmt.Println("generated parser does not compile:", out)
		return 1
	}
	res, err := b.Run([]*mon.Case{v.Case}, batch.RunOpts{})
	if err != nil {
		fmt.Println(err)
	}
	r := res[v.Case.ID]
	js, _ := json.MarshalIndent(r, "", " ")
	fmt.Printf("expected: %v\nstored observation: %v\nobserved now:\n%s\n", v.Want, v.Got, js)
	return 0
}

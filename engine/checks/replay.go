package checks

import (
	"encoding/json"
	"fmt"
	"strings"

	"verif/engine/batch"
	"verif/engine/mon"
)

// replay regenerates the parser of the stored grammar text with the stored flags from the
// current tree, runs the stored case and prints expected vs. observed.
func replay(v *Violation) int {
	fmt.Printf("property %s class %s\n%s\n", v.Prop, v.Class, v.Summary)
	if v.Grammar == "" || v.Case == nil {
		fmt.Println("(no executable case stored; see the file for the witness)")
		return 0
	}
	w, err := batch.NewWorkspace()
	if err != nil {
		fmt.Println("cannot build:", err)
		return 2
	}
	defer w.Close()
	g := w.Gen(v.Grammar, v.Flags...)
	if g.Exit != 0 {
		fmt.Printf("pigeon exit %d: %s\n", g.Exit, g.Stderr)
		return 1
	}
	opt := false
	for _, f := range v.Flags {
		if f == "-optimize-parser" {
			opt = true
		}
	}
	b := w.NewBatch(false)
	b.Add(&batch.Pkg{Name: v.Case.Pkg, Src: g.Stdout, Optimized: opt, HasState: strings.Contains(v.Grammar, "#{") || !opt, HasMemo: !opt})
	if out, err := b.Build(); err != nil {
		fmt.Println("generated parser does not compile:", out)
		return 1
	}
	res, err := b.Run([]*mon.Case{v.Case}, batch.RunOpts{})
	if err != nil {
		fmt.Println(err)
	}
	r := res[v.Case.ID]
	js, _ := json.MarshalIndent(r, "", " ")
	fmt.Printf("expected: %v\nstored observation: %v\nobserved now:\n%s\n", v.Want, v.Got, js)
	return 0
}

package gast

import (
	"fmt"
	"strings"
)

// PrintOpts controls how a grammar is spelled.
type PrintOpts struct {
	Pkg      string // package clause of the initializer
	Receiver string // receiver name used inside blocks (default c)
	NoInit   bool   // no initializer at all
	Plain    bool   // blocks are printed as opaque `{ /*id*/ ... }` returning constants (no mon)
	RuleOp   string // default "<-"
	OneLine  bool   // all rules on one line, separated by ';'
}

// level = binding strength: recover 0 < choice 1 < action 2 < sequence 3 < label 4 < prefix 5 <
// suffix 6 < primary 7.
func level(e *Expr) int {
	switch e.Kind {
	case Recovery:
		return 0
	case Choice:
		return 1
	case Action:
		return 2
	case Seq:
		return 3
	case Labeled, Throw:
		return 4
	case And, Not:
		return 5
	case ZeroOrOne, ZeroOrMore, OneOrMore:
		return 6
	}
	return 7
}

// Print spells the grammar as PEG text.
func Print(g *Grammar, o PrintOpts) string {
	if g.Raw != "" {
		return strings.ReplaceAll(g.Raw, "%PKG%", o.Pkg)
	}
	if o.Receiver == "" {
		o.Receiver = "c"
	}
	if o.RuleOp == "" {
		o.RuleOp = "<-"
	}
	var sb strings.Builder
	if !o.NoInit {
		fmt.Fprintf(&sb, "{\npackage %s\n", o.Pkg)
		if !o.Plain && g.hasBlocks() {
			sb.WriteString("\nimport \"vb/mon\"\n")
			if g.IndirectState && g.UsesState && !g.StateHelperExtern {
				sb.WriteString("\nfunc verifSt(x *current) map[string]any { return x.state }\n")
			}
		}
		sb.WriteString("}\n\n")
	}
	for _, r := range g.Rules {
		sb.WriteString(r.Name)
		if r.Display != "" {
			sb.WriteString(" " + LitSrc(r.Display, false))
		}
		sb.WriteString(" " + o.RuleOp + " ")
		p := &printer{g: g, o: o, sb: &sb}
		p.expr(r.Expr, 0)
		if o.OneLine {
			sb.WriteString(" ; ")
		} else {
			sb.WriteString("\n\n")
		}
	}
	return sb.String()
}

func (g *Grammar) hasBlocks() bool {
	has := false
	for _, r := range g.Rules {
		Walk(r.Expr, func(e *Expr) {
			if e.Code != nil {
				has = true
			}
		})
	}
	return has
}

// ExprString prints one expression (no blocks detail) for samples and messages.
func ExprString(g *Grammar, e *Expr) string {
	var sb strings.Builder
	p := &printer{g: g, o: PrintOpts{Receiver: "c", Plain: true}, sb: &sb, short: true}
	p.expr(e, 0)
	return sb.String()
}

// Short prints the grammar compactly (blocks abbreviated) for evidence samples.
func Short(g *Grammar) string {
	var sb strings.Builder
	for i, r := range g.Rules {
		if i > 0 {
			sb.WriteString("; ")
		}
		sb.WriteString(r.Name)
		if r.Display != "" {
			sb.WriteString(" " + LitSrc(r.Display, false))
		}
		sb.WriteString(" <- ")
		p := &printer{g: g, o: PrintOpts{Receiver: "c", Plain: true}, sb: &sb, short: true}
		p.expr(r.Expr, 0)
	}
	return sb.String()
}

type printer struct {
	g     *Grammar
	o     PrintOpts
	sb    *strings.Builder
	short bool
}

func (p *printer) expr(e *Expr, min int) {
	if level(e) < min {
		p.sb.WriteString("( ")
		p.expr(e, 0)
		p.sb.WriteString(" )")
		return
	}
	switch e.Kind {
	case Recovery:
		p.expr(e.Subs[0], 0) // left-associative: a recovery on the left needs no parentheses
		p.sb.WriteString(" //{" + strings.Join(e.Labels, ", ") + "} ")
		p.expr(e.Subs[1], 1)
	case Choice:
		for i, a := range e.Subs {
			if i > 0 {
				p.sb.WriteString(" / ")
			}
			p.expr(a, 2)
		}
	case Action:
		p.expr(e.Subs[0], 3)
		p.sb.WriteString(" ")
		p.block(e)
	case Seq:
		for i, s := range e.Subs {
			if i > 0 {
				p.sb.WriteString(" ")
			}
			p.expr(s, 4)
		}
	case Labeled:
		p.sb.WriteString(e.Label + ":")
		p.expr(e.Subs[0], 5)
	case Throw:
		p.sb.WriteString("%{" + e.Label + "}")
	case And:
		p.sb.WriteString("&")
		p.expr(e.Subs[0], 6)
	case Not:
		p.sb.WriteString("!")
		p.expr(e.Subs[0], 6)
	case ZeroOrOne:
		p.expr(e.Subs[0], 7)
		p.sb.WriteString("?")
	case ZeroOrMore:
		p.expr(e.Subs[0], 7)
		p.sb.WriteString("*")
	case OneOrMore:
		p.expr(e.Subs[0], 7)
		p.sb.WriteString("+")
	case RuleRef:
		p.sb.WriteString(e.Name)
	case Lit:
		p.sb.WriteString(LitSrc(e.Val, e.IgnoreCase))
	case Class:
		p.sb.WriteString(e.Class.Src())
	case Any:
		p.sb.WriteString(".")
	case AndCode:
		p.sb.WriteString("&")
		p.block(e)
	case NotCode:
		p.sb.WriteString("!")
		p.block(e)
	case StateCode:
		p.sb.WriteString("#")
		p.block(e)
	}
}

func (p *printer) block(e *Expr) {
	b := e.Code
	if p.short {
		fmt.Fprintf(p.sb, "{%d}", b.ID)
		return
	}
	if p.o.Plain {
		switch e.Kind {
		case Action:
			fmt.Fprintf(p.sb, "{ /*id%d*/ return nil, nil }", b.ID)
		case StateCode:
			fmt.Fprintf(p.sb, "{ /*id%d*/ return nil }", b.ID)
		default:
			fmt.Fprintf(p.sb, "{ /*id%d*/ return true, nil }", b.ID)
		}
		return
	}
	c := p.o.Receiver
	fn := "Act"
	switch e.Kind {
	case AndCode, NotCode:
		fn = "Pred"
	case StateCode:
		fn = "State"
	}
	st := "nil"
	if p.g.UsesState {
		st = c + ".state"
		if p.g.IndirectState {
			st = "verifSt(" + c + ")"
			if p.g.StateHelperExtern {
				st = "verifStX(" + c + ")"
			}
		}
	}
	sp := b.Spec
	gsx := c + ".globalStore"
	if p.g.IndirectGlobal {
		gsx = "verifGS(" + c + ")"
	}
	fmt.Fprintf(p.sb, "{ /*id%d*/ return mon.%s(%s, %s, %d, mon.Spec{R: %d, E: %d, P: %d, B: %d, S: %d, Scr: %t, G: %t}, %s.text, %s.pos.line, %s.pos.col, %s.pos.offset",
		b.ID, fn, gsx, st, b.ID, sp.R, sp.E, sp.P, sp.B, sp.S, sp.Scr, sp.G, c, c, c, c)
	for _, l := range e.Params {
		fmt.Fprintf(p.sb, ", mon.L{K: %q, V: %s}", l, l)
	}
	p.sb.WriteString(") }")
}

package gast

import (
	"math/rand"
	"sort"
	"strconv"
	"unicode"
	"unicode/utf8"

	"verif/engine/mon"
)

// Profile steers the random grammar generator. One profile per property.
type Profile struct {
	MinRules, MaxRules int
	MaxDepth           int
	W                  [NKinds]int // relative weights of expression kinds
	Alphabets          [][]rune    // candidate terminal alphabets; one is drawn per grammar
	PIgnoreCase        int         // percent of literals/classes with i
	PInverted          int         // percent of classes with ^
	PUClass            int         // percent of classes carrying a Unicode class
	LabelPool          int         // number of distinct label names used (0 = all 8): few names make nested scopes re-use them
	PWideRange         int         // percent of class members that are wide ranges (crossing U+0080)
	UClasses           []string
	PLabel             int // percent of sequence items that get a label
	PDisplay           int // percent of rules with a display name
	PBackRef           int // percent of rule references (in guarded positions) that point backwards (recursion)
	PEmptyLit          int // percent of literals that are "" (only where nullable is allowed)
	PMultiLit          int // percent of literals with 2-3 runes
	ActSpec            func(r *rand.Rand) mon.Spec
	PredSpec           func(r *rand.Rand) mon.Spec
	StateSpec          func(r *rand.Rand) mon.Spec
	ThrowLabels        []string
	AllowNullableRep   bool // C16: repetitions over nullable bodies allowed
	RegularCaseOnly    bool // i only on cased letters with simple pairs; no Unicode classes with i
}

// DefaultAlphabets are small so that alternatives overlap and backtracking is deep.
var DefaultAlphabets = [][]rune{
	[]rune("ab"),
	[]rune("abc"),
	[]rune("aAbB"),
	[]rune("ab\n"),
	[]rune("aé\n"),
	[]rune("a世\n😀"),
	[]rune("xyz1"),
	[]rune("a�b"),
	[]rune("kKéÉ"),
}

type gen struct {
	r        *rand.Rand
	p        *Profile
	alpha    []rune
	names    []string
	nullable map[string]bool // known nullability of already generated (later) rules
	cur      int             // index of the rule being generated
	nextID   int
	handled  []string // labels handled by the lexically enclosing recovery operators
}

func pct(r *rand.Rand, p int) bool { return p > 0 && r.Intn(100) < p }

// Generate draws a grammar. It retries until the independent analyses accept it (no left
// recursion, no repetition over a nullable body unless allowed, no undefined references).
func Generate(r *rand.Rand, p *Profile) *Grammar {
	for try := 0; ; try++ {
		g := generateOnce(r, p)
		g.Finalize()
		a := Analyze(g)
		if len(a.LeftRecursive()) > 0 {
			continue
		}
		if !p.AllowNullableRep && a.NullableRepetition() != nil {
			continue
		}
		if len(g.UndefinedRefs()) > 0 {
			continue
		}
		if bad1(g) {
			continue
		}
		return g
	}
}

// bad1 rejects shapes the front-end cannot produce (1-element sequences / choices), which would
// print to a different tree.
func bad1(g *Grammar) bool {
	bad := false
	for _, r := range g.Rules {
		Walk(r.Expr, func(e *Expr) {
			if (e.Kind == Seq || e.Kind == Choice) && len(e.Subs) < 2 {
				bad = true
			}
		})
	}
	return bad
}

func generateOnce(r *rand.Rand, p *Profile) *Grammar {
	gn := &gen{r: r, p: p, nullable: map[string]bool{}}
	alphas := p.Alphabets
	if len(alphas) == 0 {
		alphas = DefaultAlphabets
	}
	gn.alpha = alphas[r.Intn(len(alphas))]
	n := p.MinRules
	if p.MaxRules > p.MinRules {
		n += r.Intn(p.MaxRules - p.MinRules + 1)
	}
	if n < 1 {
		n = 1
	}
	for i := 0; i < n; i++ {
		gn.names = append(gn.names, "R"+strconv.Itoa(i))
	}
	rules := make([]*Rule, n)
	// later rules first, so that their nullability is known when earlier rules refer to them
	for i := n - 1; i >= 0; i-- {
		gn.cur = i
		sc := &scope{}
		e := gn.expr(p.MaxDepth, false, true, sc)
		rules[i] = &Rule{Name: gn.names[i], Expr: e}
		if pct(r, p.PDisplay) {
			rules[i].Display = "disp " + gn.names[i]
			if i%3 == 1 {
				// characters that mean something to printf and to Go string syntax
				rules[i].Display = "100% " + gn.names[i] + " %d %s \\n"
			}
		}
		gn.nullable[gn.names[i]] = gn.isNullable(e)
	}
	// make every rule reachable-ish: not required; entrypoints cover them
	return &Grammar{Rules: rules}
}

type scope struct{ labels []string }

func (s *scope) has(l string) bool {
	for _, x := range s.labels {
		if x == l {
			return true
		}
	}
	return false
}

var labelPool = []string{"a", "b", "d", "e", "x", "y", "v", "w"}

func (gn *gen) freshLabel(sc *scope) string {
	n := len(labelPool)
	if gn.p.LabelPool > 0 && gn.p.LabelPool < n {
		n = gn.p.LabelPool
	}
	for _, l := range gn.r.Perm(n) {
		if !sc.has(labelPool[l]) {
			return labelPool[l]
		}
	}
	return ""
}

func (gn *gen) id() int { gn.nextID++; return gn.nextID }

// isNullable is the generator's conservative local nullability: unknown (backward) rules count
// as nullable.
func (gn *gen) isNullable(e *Expr) bool {
	switch e.Kind {
	case Choice:
		for _, s := range e.Subs {
			if gn.isNullable(s) {
				return true
			}
		}
		return false
	case Seq:
		for _, s := range e.Subs {
			if !gn.isNullable(s) {
				return false
			}
		}
		return true
	case Action, Labeled, OneOrMore:
		return gn.isNullable(e.Subs[0])
	case RuleRef:
		n, known := gn.nullable[e.Name]
		return !known || n
	case Lit:
		return e.Val == ""
	case Class, Any:
		return false
	case Recovery:
		return gn.isNullable(e.Subs[0])
	}
	return true // predicates, ? *, code blocks, throw
}

// expr draws an expression. must: the result must consume input when it succeeds. atStart: the
// expression may be evaluated at the offset where the current rule started (rule references are
// then restricted to later rules).
func (gn *gen) expr(depth int, must, atStart bool, sc *scope) *Expr {
	p := gn.p
	r := gn.r
	if depth <= 0 {
		return gn.terminal(must)
	}
	for tries := 0; tries < 50; tries++ {
		k := gn.pickKind()
		switch k {
		case Choice:
			n := 2 + r.Intn(3)
			alts := make([]*Expr, n)
			for i := range alts {
				alts[i] = gn.expr(depth-1, must, atStart, &scope{})
			}
			return C(alts...)
		case Seq:
			n := 2 + r.Intn(3)
			items := make([]*Expr, 0, n)
			mustIdx := -1
			if must {
				mustIdx = r.Intn(n)
			}
			start := atStart
			for i := 0; i < n; i++ {
				var it *Expr
				if l := gn.freshLabel(sc); l != "" && pct(r, p.PLabel) {
					// the operand of a label is a scope of its own: the same names may be used again inside
					sc.labels = append(sc.labels, l)
					it = Lab(l, gn.expr(depth-1, i == mustIdx, start, &scope{}))
				} else {
					it = gn.expr(depth-1, i == mustIdx, start, sc)
				}
				items = append(items, it)
				if !gn.isNullable(it) {
					start = false
				}
			}
			return S(items...)
		case Action:
			if p.ActSpec == nil {
				continue
			}
			sub := gn.expr(depth-1, must, atStart, sc)
			if sub.Kind == Action {
				continue
			}
			return A(sub, gn.id(), p.ActSpec(r))
		case Labeled:
			continue // labels are attached inside sequences
		case And, Not:
			if must {
				continue
			}
			sub := gn.expr(depth-1, false, atStart, &scope{})
			if k == And {
				return AndE(sub)
			}
			return NotE(sub)
		case ZeroOrOne:
			if must {
				continue
			}
			return Opt(gn.expr(depth-1, false, atStart, &scope{}))
		case ZeroOrMore:
			if must {
				continue
			}
			return Star(gn.expr(depth-1, !p.AllowNullableRep, atStart, &scope{}))
		case OneOrMore:
			return Plus(gn.expr(depth-1, must || !p.AllowNullableRep, atStart, &scope{}))
		case RuleRef:
			if e := gn.ruleRef(must, atStart); e != nil {
				return e
			}
			continue
		case Lit, Class, Any:
			return gn.terminalKind(k, must)
		case AndCode, NotCode:
			if must || p.PredSpec == nil {
				continue
			}
			if k == AndCode {
				return AndC(gn.id(), p.PredSpec(r))
			}
			return NotC(gn.id(), p.PredSpec(r))
		case StateCode:
			if must || p.StateSpec == nil {
				continue
			}
			return St(gn.id(), p.StateSpec(r))
		case Throw:
			if must || len(p.ThrowLabels) == 0 {
				continue
			}
			// mostly throw a label some enclosing recovery operator handles
			if len(gn.handled) > 0 && r.Intn(4) != 0 {
				var cands []string
				for _, l := range gn.handled {
					for _, a := range p.ThrowLabels {
						if a == l {
							cands = append(cands, l)
						}
					}
				}
				if len(cands) > 0 {
					return Thr(cands[r.Intn(len(cands))])
				}
			}
			return Thr(p.ThrowLabels[r.Intn(len(p.ThrowLabels))])
		case Recovery:
			if len(p.ThrowLabels) == 0 {
				continue
			}
			// handled labels: a random non-empty subset; the recovery expression may only throw
			// strictly greater labels (no unbounded handler recursion)
			nl := 1
			if r.Intn(10) < 3 {
				nl = 2
			}
			// prefer the smaller labels so that recovery expressions can still throw greater ones
			perm := r.Perm(len(p.ThrowLabels))
			if r.Intn(2) == 0 {
				sort.Ints(perm)
			}
			idx := perm[:min(nl, len(p.ThrowLabels))]
			sort.Ints(idx)
			var ls []string
			for _, i := range idx {
				ls = append(ls, p.ThrowLabels[i])
			}
			nsc := &scope{}
			nh := len(gn.handled)
			gn.handled = append(gn.handled, ls...)
			guarded := gn.expr(depth-1, must, atStart, nsc)
			gn.handled = gn.handled[:nh]
			saved := p.ThrowLabels
			gn.p = &Profile{}
			*gn.p = *p
			gn.p.ThrowLabels = saved[idx[len(idx)-1]+1:]
			// the recovery expression runs at the throw site: treat it as a start position; it
			// shares the recovery operator's label scope with the guarded expression
			rec := gn.expr(depth-1, false, true, nsc)
			gn.p = p
			return Rec(guarded, rec, ls...)
		}
	}
	return gn.terminal(must)
}

func min(a, b int) int {
	if a < b {
		return a
	}
	return b
}

func (gn *gen) pickKind() Kind {
	tot := 0
	for _, w := range gn.p.W {
		tot += w
	}
	x := gn.r.Intn(tot)
	for k, w := range gn.p.W {
		if x < w {
			return Kind(k)
		}
		x -= w
	}
	return Lit
}

func (gn *gen) ruleRef(must, atStart bool) *Expr {
	n := len(gn.names)
	var cands []string
	for j := gn.cur + 1; j < n; j++ {
		if must && gn.nullable[gn.names[j]] {
			continue
		}
		cands = append(cands, gn.names[j])
	}
	if !atStart && !must && pct(gn.r, gn.p.PBackRef) {
		return Ref(gn.names[gn.r.Intn(gn.cur+1)])
	}
	if len(cands) == 0 {
		return nil
	}
	return Ref(cands[gn.r.Intn(len(cands))])
}

func (gn *gen) terminal(must bool) *Expr {
	ks := []Kind{Lit, Lit, Class, Any}
	return gn.terminalKind(ks[gn.r.Intn(len(ks))], must)
}

func (gn *gen) rune1() rune { return gn.alpha[gn.r.Intn(len(gn.alpha))] }

func hasCase(r rune) bool {
	return unicode.ToLower(r) != unicode.ToUpper(r)
}

func (gn *gen) terminalKind(k Kind, must bool) *Expr {
	r, p := gn.r, gn.p
	switch k {
	case Any:
		return Dot()
	case Class:
		c := &ClassSpec{}
		n := 1 + r.Intn(3)
		for i := 0; i < n; i++ {
			if p.PWideRange > 0 && pct(r, p.PWideRange) {
				// a range from a low rune far up (crossing U+0080 and the case blocks)
				lo := []rune{' ', '0', 'A', 'Z', 'a', 0x7f, 0x80}[r.Intn(7)]
				hi := []rune{0x80, 0xff, 0x17f, 0x2fff, 0xffff, 0x10ffff}[r.Intn(6)]
				c.Ranges = append(c.Ranges, [2]rune{lo, hi})
				continue
			}
			if r.Intn(4) == 0 {
				lo, hi := gn.rune1(), gn.rune1()
				if lo > hi {
					lo, hi = hi, lo
				}
				if lo != '\n' && hi != '\n' && lo != utf8.RuneError && hi != utf8.RuneError && hi-lo < 64 {
					c.Ranges = append(c.Ranges, [2]rune{lo, hi})
					continue
				}
			}
			ch := gn.rune1()
			dup := false
			for _, x := range c.Chars {
				if x == ch {
					dup = true
				}
			}
			if !dup {
				c.Chars = append(c.Chars, ch)
			}
		}
		if len(p.UClasses) > 0 && pct(r, p.PUClass) {
			c.UClasses = append(c.UClasses, p.UClasses[r.Intn(len(p.UClasses))])
		}
		if len(c.Chars) == 0 && len(c.Ranges) == 0 && len(c.UClasses) == 0 {
			c.Chars = []rune{gn.rune1()}
		}
		c.Inverted = pct(r, p.PInverted)
		if pct(r, p.PIgnoreCase) {
			c.IgnoreCase = true
			if p.RegularCaseOnly {
				c.UClasses = nil
				if len(c.Chars) == 0 && len(c.Ranges) == 0 {
					c.Chars = []rune{gn.rune1()}
				}
				for _, rg := range c.Ranges {
					// ranges under i must stay inside one case block to have one reading
					if unicode.IsUpper(rg[0]) != unicode.IsUpper(rg[1]) || unicode.IsLower(rg[0]) != unicode.IsLower(rg[1]) || !sameCaseRun(rg[0], rg[1]) {
						c.IgnoreCase = false
					}
				}
			}
		}
		return Cl(c)
	default:
		if !must && pct(r, p.PEmptyLit) {
			return L("")
		}
		n := 1
		if pct(r, p.PMultiLit) {
			n = 2 + r.Intn(2)
		}
		rs := make([]rune, n)
		for i := range rs {
			rs[i] = gn.rune1()
		}
		e := L(string(rs))
		if pct(r, p.PIgnoreCase) {
			e.IgnoreCase = true
		}
		return e
	}
}

// sameCaseRun reports whether every rune in [lo,hi] has the same case kind (all lower letters,
// all upper letters, or all uncased), so that lower-casing the endpoints has one reading.
func sameCaseRun(lo, hi rune) bool {
	kind := func(r rune) int {
		switch {
		case unicode.IsUpper(r):
			return 1
		case unicode.IsLower(r):
			return 2
		case hasCase(r):
			return 3
		}
		return 0
	}
	k := kind(lo)
	if k == 3 {
		return false
	}
	for r := lo; r <= hi; r++ {
		if kind(r) != k {
			return false
		}
	}
	return true
}

// ----------------------------------------------------------------------------------------------
// Inputs.

// Alphabet collects the terminal runes of a grammar plus one foreign symbol.
// foldSpecials are runes whose lower case is the lower case of a differently spelled letter.
var foldSpecials = []rune{0x212A, 0x0130, 0x212B, 0x2126, 0x1E9E, 0x03F4, 0x01C5, 0x01C8, 0x01CB, 0x01F2}

func (g *Grammar) Alphabet() []rune {
	set := map[rune]bool{}
	for _, r := range g.Rules {
		Walk(r.Expr, func(e *Expr) {
			switch e.Kind {
			case Lit:
				for _, x := range e.Val {
					set[x] = true
					if e.IgnoreCase {
						set[unicode.ToUpper(x)] = true
						set[unicode.ToLower(x)] = true
						// runes outside the simple upper/lower pair that fold onto x (Kelvin sign -> k, ...)
						for _, s := range foldSpecials {
							if s != x && unicode.ToLower(s) == unicode.ToLower(x) {
								set[s] = true
							}
						}
					}
				}
			case Class:
				for _, x := range e.Class.Chars {
					set[x] = true
					if e.Class.IgnoreCase {
						set[unicode.ToUpper(x)] = true
						set[unicode.ToLower(x)] = true
						for _, s := range foldSpecials {
							if s != x && unicode.ToLower(s) == unicode.ToLower(x) {
								set[s] = true
							}
						}
					}
				}
				for _, rg := range e.Class.Ranges {
					set[rg[0]] = true
					set[rg[1]] = true
					if rg[1]-rg[0] > 1 {
						set[(rg[0]+rg[1])/2] = true
					}
					if e.Class.IgnoreCase {
						lo, hi := unicode.ToLower(rg[0]), unicode.ToLower(rg[1])
						for _, s := range foldSpecials {
							if l := unicode.ToLower(s); l >= lo && l <= hi {
								set[s] = true
							}
						}
					}
				}
				for _, u := range e.Class.UClasses {
					if x := sampleUClass(u); x != 0 {
						set[x] = true
					}
				}
				if len(e.Class.UClasses) >= 2 {
					// a member of each listed class that none of the other listed classes contains (a
					// class that is dropped or absorbed by a neighbour shows only on such a rune)
					for i, u := range e.Class.UClasses {
						if x := sampleOnlyIn(u, e.Class.UClasses, i); x != 0 {
							set[x] = true
						}
					}
				}
			}
		})
	}
	out := make([]rune, 0, len(set)+1)
	for x := range set {
		out = append(out, x)
	}
	sort.Slice(out, func(i, j int) bool { return out[i] < out[j] })
	for _, f := range []rune{'z', 'q', '#'} {
		if !set[f] {
			out = append(out, f)
			break
		}
	}
	return out
}

func sampleUClass(name string) rune {
	t := UnicodeTable(name)
	if t == nil {
		return 0
	}
	if len(t.R16) > 0 {
		return rune(t.R16[0].Lo)
	}
	if len(t.R32) > 0 {
		return rune(t.R32[0].Lo)
	}
	return 0
}

// sampleOnlyIn returns a rune of class name that is in none of the other classes of the list.
func sampleOnlyIn(name string, all []string, self int) rune {
	t := UnicodeTable(name)
	if t == nil {
		return 0
	}
	var others []*unicode.RangeTable
	for j, o := range all {
		if j != self {
			if ot := UnicodeTable(o); ot != nil {
				others = append(others, ot)
			}
		}
	}
	tried := 0
	try := func(x rune) bool {
		tried++
		for _, ot := range others {
			if unicode.Is(ot, x) {
				return false
			}
		}
		return true
	}
	for _, rg := range t.R16 {
		for x := rune(rg.Lo); x <= rune(rg.Hi) && tried < 4000; x += rune(rg.Stride) {
			if try(x) {
				return x
			}
		}
	}
	for _, rg := range t.R32 {
		for x := rune(rg.Lo); x <= rune(rg.Hi) && tried < 4000; x += rune(rg.Stride) {
			if try(x) {
				return x
			}
		}
	}
	return 0
}

// Sentence derives a string from rule by a bounded random derivation (predicates and code
// blocks are ignored, so the result is only likely to match).
func (g *Grammar) Sentence(r *rand.Rand, rule string, alpha []rune, depth int) []byte {
	var out []byte
	ru := g.Rule(rule)
	if ru == nil {
		return nil
	}
	g.derive(r, ru.Expr, alpha, depth, &out)
	return out
}

func (g *Grammar) derive(r *rand.Rand, e *Expr, alpha []rune, depth int, out *[]byte) {
	if len(*out) > 200 {
		return
	}
	switch e.Kind {
	case Choice:
		if depth <= 0 {
			g.derive(r, e.Subs[len(e.Subs)-1], alpha, depth-1, out)
			return
		}
		g.derive(r, e.Subs[r.Intn(len(e.Subs))], alpha, depth-1, out)
	case Seq:
		for _, s := range e.Subs {
			g.derive(r, s, alpha, depth-1, out)
		}
	case Action, Labeled:
		g.derive(r, e.Subs[0], alpha, depth, out)
	case Recovery:
		g.derive(r, e.Subs[0], alpha, depth-1, out)
	case Throw:
		// a throw usually means "error here": sometimes emit something a recovery might skip
		if r.Intn(2) == 0 {
			*out = utf8.AppendRune(*out, alpha[r.Intn(len(alpha))])
		}
	case ZeroOrOne:
		if depth > 0 && r.Intn(2) == 0 {
			g.derive(r, e.Subs[0], alpha, depth-1, out)
		}
	case ZeroOrMore, OneOrMore:
		n := r.Intn(3)
		if e.Kind == OneOrMore {
			n++
		}
		if depth <= 0 && e.Kind == ZeroOrMore {
			n = 0
		}
		for i := 0; i < n; i++ {
			g.derive(r, e.Subs[0], alpha, depth-1, out)
		}
	case RuleRef:
		if depth < -6 {
			return
		}
		if ru := g.Rule(e.Name); ru != nil {
			g.derive(r, ru.Expr, alpha, depth-1, out)
		}
	case Lit:
		for _, x := range e.Val {
			if e.IgnoreCase && r.Intn(2) == 0 {
				if unicode.IsUpper(x) {
					x = unicode.ToLower(x)
				} else {
					x = unicode.ToUpper(x)
				}
			}
			*out = utf8.AppendRune(*out, x)
		}
	case Class:
		c := e.Class
		var cands []rune
		for _, x := range alpha {
			in := false
			for _, ch := range c.Chars {
				if ch == x {
					in = true
				}
			}
			for _, rg := range c.Ranges {
				if x >= rg[0] && x <= rg[1] {
					in = true
				}
			}
			for _, u := range c.UClasses {
				if t := UnicodeTable(u); t != nil && unicode.Is(t, x) {
					in = true
				}
			}
			if in != c.Inverted {
				cands = append(cands, x)
			}
		}
		if len(cands) == 0 {
			cands = alpha
		}
		*out = utf8.AppendRune(*out, cands[r.Intn(len(cands))])
	case Any:
		*out = utf8.AppendRune(*out, alpha[r.Intn(len(alpha))])
	}
}

// Mutate applies one random edit.
func Mutate(r *rand.Rand, in []byte, alpha []rune, invalid bool) []byte {
	out := append([]byte(nil), in...)
	pick := func() []byte {
		if invalid && r.Intn(3) == 0 {
			return InvalidSeqs[r.Intn(len(InvalidSeqs))]
		}
		return []byte(string(alpha[r.Intn(len(alpha))]))
	}
	pos := 0
	if len(out) > 0 {
		pos = r.Intn(len(out) + 1)
	}
	// keep edits on rune boundaries unless invalid bytes are wanted
	if !invalid {
		for pos > 0 && pos < len(out) && !utf8.RuneStart(out[pos]) {
			pos--
		}
	}
	switch r.Intn(6) {
	case 0: // insert
		out = append(out[:pos], append(pick(), out[pos:]...)...)
	case 1: // delete one rune
		if pos < len(out) {
			_, w := utf8.DecodeRune(out[pos:])
			if invalid && r.Intn(2) == 0 {
				w = 1
			}
			out = append(out[:pos], out[pos+w:]...)
		}
	case 2: // replace
		if pos < len(out) {
			_, w := utf8.DecodeRune(out[pos:])
			out = append(out[:pos], append(pick(), out[pos+w:]...)...)
		}
	case 3: // truncate
		out = out[:pos]
	case 4: // duplicate tail
		out = append(out, out[pos:]...)
	case 5: // append
		out = append(out, pick()...)
	}
	if len(out) > 300 {
		out = out[:300]
		if !invalid {
			for len(out) > 0 && !utf8.Valid(out) {
				out = out[:len(out)-1]
			}
		}
	}
	return out
}

// InvalidSeqs are the invalid UTF-8 shapes: stray continuation bytes, truncated sequences,
// overlongs, surrogates, 0xFE/0xFF.
var InvalidSeqs = [][]byte{
	{0x80}, {0xBF}, {0xC3}, {0xE4, 0xB8}, {0xF0, 0x9F, 0x98}, {0xC0, 0xAF}, {0xE0, 0x80, 0xAF},
	{0xED, 0xA0, 0x80}, {0xFE}, {0xFF}, {0xF8, 0x88, 0x80, 0x80, 0x80}, {0xC3, 0x28},
}

// Exhaustive enumerates all strings over alpha up to length maxLen, capped at limit strings.
func Exhaustive(alpha []rune, maxLen, limit int) [][]byte {
	out := [][]byte{{}}
	prev := [][]byte{{}}
	for l := 1; l <= maxLen; l++ {
		var next [][]byte
		for _, p := range prev {
			for _, x := range alpha {
				s := utf8.AppendRune(append([]byte(nil), p...), x)
				next = append(next, s)
				if len(out)+len(next) > limit {
					return append(out, next...)
				}
			}
		}
		out = append(out, next...)
		prev = next
	}
	return out
}

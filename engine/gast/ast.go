// Package gast is the driver's own grammar AST: generators draw trees of it, the printer spells
// them as PEG text for pigeon, and the reference model (engine/ref) interprets them.
package gast

import (
	"fmt"
	"sort"
	"strconv"
	"strings"
	"unicode"

	"verif/engine/mon"
)

// Kind enumerates the 18 expression kinds.
type Kind int

const (
	Choice Kind = iota
	Seq
	Action
	Labeled
	And
	Not
	ZeroOrOne
	ZeroOrMore
	OneOrMore
	RuleRef
	Lit
	Class
	Any
	AndCode
	NotCode
	StateCode
	Throw
	Recovery
	NKinds
)

var kindNames = [...]string{"Choice", "Seq", "Action", "Labeled", "And", "Not", "ZeroOrOne", "ZeroOrMore", "OneOrMore",
	"RuleRef", "Lit", "Class", "Any", "AndCode", "NotCode", "StateCode", "Throw", "Recovery"}

func (k Kind) String() string { return kindNames[k] }

// ClassSpec is a character class.
type ClassSpec struct {
	Chars      []rune
	Ranges     [][2]rune
	UClasses   []string
	Inverted   bool
	IgnoreCase bool
}

// Block is the behaviour of a code block.
type Block struct {
	ID   int
	Spec mon.Spec
}

// Expr is one expression node.
type Expr struct {
	Kind       Kind
	Subs       []*Expr
	Label      string   // Labeled, Throw
	Labels     []string // Recovery
	Name       string   // RuleRef
	Val        string   // Lit
	IgnoreCase bool     // Lit
	Class      *ClassSpec
	Code       *Block
	ID         int // preorder id within the grammar, set by Finalize

	// set by Finalize: labels visible to this node's code block, in declaration order
	Params []string
}

// Rule is one grammar rule.
type Rule struct {
	Name    string
	Display string
	Expr    *Expr
}

// Grammar is a whole grammar.
type Grammar struct {
	// Raw, when set, is the grammar text itself (with %PKG% for the package name): hand-written
	// code blocks for the few shapes the monitor's uniform blocks cannot express. Rules is then only
	// a stand-in (Print returns Raw).
	Raw string
	// IndirectState: code blocks reach the state store through a helper that takes the receiver
	// (verifSt(c)) instead of spelling c.state - what a grammar with helper functions does.
	IndirectState bool
	// IndirectGlobal: code blocks reach the globalStore only through a helper of the user's package that
	// takes the receiver (no block spells the field's name)
	IndirectGlobal bool
	// StateHelperExtern: with IndirectState, the helper lives in another file of the user's package
	// (the in-package harness), so no code block and no initializer of the grammar mentions the store
	StateHelperExtern bool
	Rules             []*Rule
	UsesState         bool // some block touches c.state (grammar has state blocks)
	NExprs            int
	byName            map[string]*Rule
}

// Rule returns the rule by name (nil if undefined).
func (g *Grammar) Rule(name string) *Rule {
	if g.byName == nil {
		g.byName = map[string]*Rule{}
		// a rule defined twice: the LAST definition is the one every reference (and the entry point)
		// resolves to - pigeon's name table and the generated parser's rule table both work that way
		for _, r := range g.Rules {
			g.byName[r.Name] = r
		}
	}
	return g.byName[name]
}

// Constructors.
func C(alts ...*Expr) *Expr  { return &Expr{Kind: Choice, Subs: alts} }
func S(items ...*Expr) *Expr { return &Expr{Kind: Seq, Subs: items} }
func A(e *Expr, id int, sp mon.Spec) *Expr {
	return &Expr{Kind: Action, Subs: []*Expr{e}, Code: &Block{ID: id, Spec: sp}}
}
func Lab(l string, e *Expr) *Expr { return &Expr{Kind: Labeled, Label: l, Subs: []*Expr{e}} }
func AndE(e *Expr) *Expr          { return &Expr{Kind: And, Subs: []*Expr{e}} }
func NotE(e *Expr) *Expr          { return &Expr{Kind: Not, Subs: []*Expr{e}} }
func Opt(e *Expr) *Expr           { return &Expr{Kind: ZeroOrOne, Subs: []*Expr{e}} }
func Star(e *Expr) *Expr          { return &Expr{Kind: ZeroOrMore, Subs: []*Expr{e}} }
func Plus(e *Expr) *Expr          { return &Expr{Kind: OneOrMore, Subs: []*Expr{e}} }
func Ref(n string) *Expr          { return &Expr{Kind: RuleRef, Name: n} }
func L(v string) *Expr            { return &Expr{Kind: Lit, Val: v} }
func Li(v string) *Expr           { return &Expr{Kind: Lit, Val: v, IgnoreCase: true} }
func Cl(c *ClassSpec) *Expr       { return &Expr{Kind: Class, Class: c} }
func Dot() *Expr                  { return &Expr{Kind: Any} }
func AndC(id int, sp mon.Spec) *Expr {
	return &Expr{Kind: AndCode, Code: &Block{ID: id, Spec: sp}}
}
func NotC(id int, sp mon.Spec) *Expr {
	return &Expr{Kind: NotCode, Code: &Block{ID: id, Spec: sp}}
}
func St(id int, sp mon.Spec) *Expr {
	return &Expr{Kind: StateCode, Code: &Block{ID: id, Spec: sp}}
}
func Thr(l string) *Expr { return &Expr{Kind: Throw, Label: l} }
func Rec(e, r *Expr, labels ...string) *Expr {
	return &Expr{Kind: Recovery, Subs: []*Expr{e, r}, Labels: labels}
}

// Chars builds a simple class of the given characters.
func Chars(s string) *ClassSpec { return &ClassSpec{Chars: []rune(s)} }

// Walk visits e and all descendants in preorder.
func Walk(e *Expr, f func(*Expr)) {
	if e == nil {
		return
	}
	f(e)
	for _, s := range e.Subs {
		Walk(s, f)
	}
}

// Clone deep-copies an expression.
func (e *Expr) Clone() *Expr {
	if e == nil {
		return nil
	}
	c := *e
	c.Subs = make([]*Expr, len(e.Subs))
	for i, s := range e.Subs {
		c.Subs[i] = s.Clone()
	}
	if e.Class != nil {
		cc := *e.Class
		cc.Chars = append([]rune(nil), e.Class.Chars...)
		cc.Ranges = append([][2]rune(nil), e.Class.Ranges...)
		cc.UClasses = append([]string(nil), e.Class.UClasses...)
		c.Class = &cc
	}
	if e.Code != nil {
		cb := *e.Code
		c.Code = &cb
	}
	c.Labels = append([]string(nil), e.Labels...)
	c.Params = nil
	return &c
}

// CloneGrammar deep-copies a grammar.
func (g *Grammar) Clone() *Grammar {
	ng := &Grammar{UsesState: g.UsesState, Raw: g.Raw, IndirectState: g.IndirectState, StateHelperExtern: g.StateHelperExtern, IndirectGlobal: g.IndirectGlobal}
	for _, r := range g.Rules {
		ng.Rules = append(ng.Rules, &Rule{Name: r.Name, Display: r.Display, Expr: r.Expr.Clone()})
	}
	ng.Finalize()
	return ng
}

// Finalize assigns preorder ids, computes block parameter lists (label scoping) and UsesState.
//
// Scoping rule (doc.go: "a labeled expression introduces a variable ... that can be referenced in
// the code blocks in the same scope"): a new scope is opened by a rule body, every choice
// alternative, the operand of a label, the operand of & ! ? * +, and a recovery operator (guarded
// and recovery expression share it). A block sees the labels declared so far in its innermost
// scope only.
func (g *Grammar) Finalize() {
	id := 0
	g.byName = nil
	g.UsesState = false
	for _, r := range g.Rules {
		Walk(r.Expr, func(e *Expr) {
			id++
			e.ID = id
			if e.Kind == StateCode {
				g.UsesState = true
			}
		})
	}
	g.NExprs = id
	for _, r := range g.Rules {
		scope := []string{}
		finalizeScope(r.Expr, &scope)
	}
}

func finalizeScope(e *Expr, scope *[]string) {
	sub := func(x *Expr) {
		ns := []string{}
		finalizeScope(x, &ns)
	}
	switch e.Kind {
	case Action:
		finalizeScope(e.Subs[0], scope)
		e.Params = append([]string(nil), *scope...)
	case AndCode, NotCode, StateCode:
		e.Params = append([]string(nil), *scope...)
	case Labeled:
		*scope = append(*scope, e.Label)
		sub(e.Subs[0])
	case Choice:
		for _, a := range e.Subs {
			sub(a)
		}
	case And, Not, ZeroOrOne, ZeroOrMore, OneOrMore:
		sub(e.Subs[0])
	case Recovery:
		ns := []string{}
		finalizeScope(e.Subs[0], &ns)
		finalizeScope(e.Subs[1], &ns)
	case Seq:
		for _, s := range e.Subs {
			finalizeScope(s, scope)
		}
	}
}

// ----------------------------------------------------------------------------------------------
// Static analyses, written from PEG theory (independent of pigeon's ast package).

// Analysis holds nullable / first-call information.
type Analysis struct {
	G        *Grammar
	Nullable map[string]bool            // rule may succeed without consuming
	First    map[string]map[string]bool // rule -> rules it may invoke at its own start offset
	handlers map[string][]*Expr         // throw label -> recovery expressions anywhere in the grammar
	// Conv: treat throw/recover by pigeon's static convention instead of the dynamic reading: a
	// recovery operator may begin with its guarded or its recovery expression, a throw begins with
	// nothing and counts as nullable
	Conv bool
}

// Analyze computes a least fixpoint of "may succeed consuming nothing" and the first-call graph.
// Predicates are transparent for first-calls (their operand starts at the same offset) and always
// nullable. A throw may run any recovery expression registered for its label (dynamic scoping is
// over-approximated by "any handler of that label in the grammar").
func Analyze(g *Grammar) *Analysis { return analyze(g, false) }

// AnalyzeConv is Analyze under pigeon's static convention for throw/recover.
func AnalyzeConv(g *Grammar) *Analysis { return analyze(g, true) }

func analyze(g *Grammar, conv bool) *Analysis {
	a := &Analysis{G: g, Nullable: map[string]bool{}, First: map[string]map[string]bool{}, handlers: map[string][]*Expr{}, Conv: conv}
	for _, r := range g.Rules {
		Walk(r.Expr, func(e *Expr) {
			if e.Kind == Recovery {
				for _, l := range e.Labels {
					a.handlers[l] = append(a.handlers[l], e.Subs[1])
				}
			}
		})
	}
	for changed := true; changed; {
		changed = false
		for _, r := range g.Rules {
			if g.Rule(r.Name) != r {
				continue // shadowed by a later definition
			}
			if !a.Nullable[r.Name] && a.ExprNullable(r.Expr) {
				a.Nullable[r.Name] = true
				changed = true
			}
		}
	}
	for _, r := range g.Rules {
		if g.Rule(r.Name) != r {
			continue
		}
		m := map[string]bool{}
		a.firstCalls(r.Expr, m)
		a.First[r.Name] = m
	}
	return a
}

// ExprNullable reports whether e may succeed without consuming input.
func (a *Analysis) ExprNullable(e *Expr) bool {
	switch e.Kind {
	case Choice:
		for _, s := range e.Subs {
			if a.ExprNullable(s) {
				return true
			}
		}
		return false
	case Seq:
		for _, s := range e.Subs {
			if !a.ExprNullable(s) {
				return false
			}
		}
		return true
	case Action, Labeled, OneOrMore:
		return a.ExprNullable(e.Subs[0])
	case And, Not, ZeroOrOne, ZeroOrMore, AndCode, NotCode, StateCode:
		return true
	case RuleRef:
		return a.Nullable[e.Name]
	case Lit:
		return e.Val == ""
	case Class, Any:
		return false
	case Throw:
		if a.Conv {
			return true
		}
		for _, h := range a.handlers[e.Label] {
			if a.ExprNullable(h) {
				return true
			}
		}
		return false
	case Recovery:
		if a.Conv {
			return a.ExprNullable(e.Subs[0]) || a.ExprNullable(e.Subs[1])
		}
		return a.ExprNullable(e.Subs[0])
	}
	return false
}

// firstCalls adds to m every rule that may be invoked at the offset where e starts.
func (a *Analysis) firstCalls(e *Expr, m map[string]bool) {
	switch e.Kind {
	case Choice:
		for _, s := range e.Subs {
			a.firstCalls(s, m)
		}
	case Seq:
		for _, s := range e.Subs {
			a.firstCalls(s, m)
			if !a.ExprNullable(s) {
				break
			}
		}
	case Action, Labeled, OneOrMore, And, Not, ZeroOrOne, ZeroOrMore:
		a.firstCalls(e.Subs[0], m)
	case RuleRef:
		m[e.Name] = true
	case Throw:
		if a.Conv {
			return
		}
		for _, h := range a.handlers[e.Label] {
			a.firstCalls(h, m)
		}
	case Recovery:
		a.firstCalls(e.Subs[0], m)
		if a.Conv {
			a.firstCalls(e.Subs[1], m)
		}
	}
}

// LeftRecursive returns the set of rules that can reach themselves through first-calls.
func (a *Analysis) LeftRecursive() map[string]bool {
	res := map[string]bool{}
	for _, r := range a.G.Rules {
		seen := map[string]bool{}
		var stack []string
		for n := range a.First[r.Name] {
			stack = append(stack, n)
		}
		for len(stack) > 0 {
			n := stack[len(stack)-1]
			stack = stack[:len(stack)-1]
			if seen[n] {
				continue
			}
			seen[n] = true
			if n == r.Name {
				res[r.Name] = true
				break
			}
			for k := range a.First[n] {
				stack = append(stack, k)
			}
		}
	}
	return res
}

// Reaches reports whether rule a can invoke rule b at its own start offset (transitively).
func (a *Analysis) Reaches(from, to string) bool {
	seen := map[string]bool{}
	stack := []string{from}
	for len(stack) > 0 {
		n := stack[len(stack)-1]
		stack = stack[:len(stack)-1]
		for k := range a.First[n] {
			if k == to {
				return true
			}
			if !seen[k] {
				seen[k] = true
				stack = append(stack, k)
			}
		}
	}
	return false
}

// SameCycle reports whether two rules lie on a common left-recursive cycle.
func (a *Analysis) SameCycle(x, y string) bool {
	if x == y {
		return a.Reaches(x, x)
	}
	return a.Reaches(x, y) && a.Reaches(y, x)
}

// NullableRepetition reports a * or + whose body may succeed without consuming (would loop).
func (a *Analysis) NullableRepetition() *Expr {
	var bad *Expr
	for _, r := range a.G.Rules {
		Walk(r.Expr, func(e *Expr) {
			if bad == nil && (e.Kind == ZeroOrMore || e.Kind == OneOrMore) && a.ExprNullable(e.Subs[0]) {
				bad = e
			}
		})
	}
	return bad
}

// UndefinedRefs lists referenced but undefined rule names.
func (g *Grammar) UndefinedRefs() []string {
	var out []string
	seen := map[string]bool{}
	for _, r := range g.Rules {
		Walk(r.Expr, func(e *Expr) {
			if e.Kind == RuleRef && g.Rule(e.Name) == nil && !seen[e.Name] {
				seen[e.Name] = true
				out = append(out, e.Name)
			}
		})
	}
	sort.Strings(out)
	return out
}

// KindsUsed returns the set of expression kinds in the grammar.
func (g *Grammar) KindsUsed() map[Kind]int {
	m := map[Kind]int{}
	for _, r := range g.Rules {
		Walk(r.Expr, func(e *Expr) { m[e.Kind]++ })
	}
	return m
}

// ----------------------------------------------------------------------------------------------
// Class semantics as documented: a rune matches when it is one of the chars, inside one of the
// ranges or in one of the Unicode classes; with i, the comparison is made on lower-cased runes;
// ^ inverts.

// ClassSrc renders the class in source form; this is also the "want" string in error messages.
func (c *ClassSpec) Src() string {
	var sb strings.Builder
	sb.WriteByte('[')
	if c.Inverted {
		sb.WriteByte('^')
	}
	for _, r := range c.Chars {
		sb.WriteString(classRune(r))
	}
	for _, rg := range c.Ranges {
		sb.WriteString(classRune(rg[0]))
		sb.WriteByte('-')
		sb.WriteString(classRune(rg[1]))
	}
	for _, u := range c.UClasses {
		if len(u) == 1 {
			sb.WriteString(`\p` + u)
		} else {
			sb.WriteString(`\p{` + u + `}`)
		}
	}
	sb.WriteByte(']')
	if c.IgnoreCase {
		sb.WriteByte('i')
	}
	return sb.String()
}

func classRune(r rune) string {
	switch r {
	case ']':
		return `\]`
	case '\\':
		return `\\`
	case '\n':
		return `\n`
	case '\r':
		return `\r`
	case '\t':
		return `\t`
	case '-':
		return `\x2d`
	case '^':
		return `\x5e`
	}
	if r < 0x20 || r == 0x7f {
		return fmt.Sprintf(`\x%02x`, r)
	}
	return string(r)
}

// LitSrc renders a literal in double-quoted source form plus the i flag.
func LitSrc(val string, ic bool) string {
	s := strconv.Quote(val)
	if ic {
		s += "i"
	}
	return s
}

// UnicodeTable resolves a class name the way the documentation describes (Go's unicode tables).
func UnicodeTable(name string) *unicode.RangeTable {
	if t, ok := unicode.Categories[name]; ok {
		return t
	}
	if t, ok := unicode.Properties[name]; ok {
		return t
	}
	if t, ok := unicode.Scripts[name]; ok {
		return t
	}
	return nil
}

// InlineClash emulates the rule inlining of -optimize-grammar (a rule that references no rule is
// copied into every place that references it, repeatedly, so rules that only reference such rules
// follow) and reports whether some code block then has the same label twice in its scope.
func InlineClash(g *Grammar) bool {
	c := g.Clone()
	for pass := 0; pass < len(c.Rules)+1; pass++ {
		leaf := map[string]*Rule{}
		for _, r := range c.Rules {
			// (the first rule and protected entrypoints are inlined into their hosts like any other rule
			// that references no rule - they are only never removed)
			isLeaf := true
			Walk(r.Expr, func(e *Expr) {
				if e.Kind == RuleRef {
					isLeaf = false
				}
			})
			if isLeaf {
				leaf[r.Name] = r
			}
		}
		changed := false
		var repl func(e *Expr) *Expr
		repl = func(e *Expr) *Expr {
			if e.Kind == RuleRef {
				if l := leaf[e.Name]; l != nil {
					changed = true
					return l.Expr.Clone()
				}
				return e
			}
			for i, s := range e.Subs {
				e.Subs[i] = repl(s)
			}
			return e
		}
		for _, r := range c.Rules {
			r.Expr = repl(r.Expr)
		}
		if !changed {
			break
		}
	}
	c.Finalize()
	clash := false
	for _, r := range c.Rules {
		Walk(r.Expr, func(e *Expr) {
			if e.Code == nil {
				return
			}
			seen := map[string]bool{}
			for _, p := range e.Params {
				if seen[p] {
					clash = true
				}
				seen[p] = true
			}
		})
	}
	return clash
}

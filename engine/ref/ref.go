// Package ref is the executable model of pigeon's documented semantics: a plain big-step PEG
// interpreter over gast trees with persistent state, an explicit handler stack for throw/recover,
// the error model, the farthest-failure model and an expression budget. It is written from
// doc.go and Ford's PEG definition and shares no code with the generated runtime; it produces
// the same observable history (value, end, code-block events, errors) the monitors record.
package ref

import (
	"reflect"
	"sort"
	"strconv"
	"strings"
	"unicode"
	"unicode/utf8"

	"verif/engine/gast"
	"verif/engine/mon"
)

// Opts are the runtime options of one parse.
type Opts struct {
	Entry         string
	File          string
	AllowInvalid  bool
	NoRecover     bool
	MaxExpr       uint64 // 0 = unlimited
	StepCap       uint64 // model's own cap on evaluations (0 = 3e6): beyond it the case is skipped
	MaxEvents     int    // cap on recorded events (0 = 100000), same meaning as mon.Trace.Max
	DetectReentry bool   // abort when a rule is re-entered at an offset where it is active
	Init          int    // >0: the state store starts as mon.InitialState(Init)
	MemoPreds     bool   // variant used only to classify known finding F20: the verdict of a code predicate is cached per (predicate, offset) as Memoize(true) does, whatever its labels are
	LRKeepSeeds   bool   // variant used only to classify known finding F06: a finished left-recursive result stays cached for its offset (as pigeon's leader memo does), so its blocks are not run again
	LR            bool   // left recursion supported: left-recursive rules denote the left-associative iteration
	MemoAll       bool   // variant used only to classify known finding F22: every (expression, offset) result is cached as Memoize(true) does - value, end and the labels it bound, but neither its state changes nor its errors nor its blocks are replayed on a hit (non-left-recursive grammars)
}

// ErrRec is one predicted element of the error list.
type ErrRec struct {
	Line, Col, Off  int
	Rule            string // display name or name; "" when no rule is active
	HasRule         bool
	Inner           string
	Kind            string // own, sentinel, panicerr, other
	IsPanic         bool   // the error made from a recovered panic
	AltLine, AltCol int    // alternative accepted position (offset-0 ambiguity), 0 = none
}

// Prefix renders file:line:col (off): rule X.
func (e ErrRec) Prefix(file string) string {
	return prefix(file, e.Line, e.Col, e.Off, e.Rule, e.HasRule)
}

func prefix(file string, line, col, off int, rule string, hasRule bool) string {
	var sb strings.Builder
	if file != "" {
		sb.WriteString(file)
		sb.WriteString(":")
	}
	sb.WriteString(strconv.Itoa(line) + ":" + strconv.Itoa(col) + " (" + strconv.Itoa(off) + ")")
	if hasRule {
		sb.WriteString(": rule " + rule)
	}
	return sb.String()
}

// Msg renders the full message.
func (e ErrRec) Msg(file string) string { return e.Prefix(file) + ": " + e.Inner }

// Result is the predicted history of one parse.
type Result struct {
	OK         bool
	End        int
	Val        any
	ValCanon   string
	Trace      []string
	Dropped    int
	Errs       []ErrRec
	Panic      string // escaping panic under NoRecover (mon.CanonPanic format)
	Panicked   bool   // a block panicked (recovered or not)
	ExprCnt    uint64
	Budget     bool // MaxExpr exhausted
	Capped     bool // model cap exceeded: no prediction
	FinalState string
	GLog       string
	FailOff    int
	Expected   []string
	NoMatchErr bool
	Reentry    string
	InvalidAt  []int // offsets of invalid bytes the parse advanced onto (default mode: reported)
	Backtracks int   // number of failed sub-evaluations (non-triviality measure)
	MaxDepth   int
	KindsEval  [gast.NKinds]int
	// throw/recover coverage
	HandlerRuns    int // recovery expressions evaluated
	HandlerFall    int // a recovery expression failed and an outer handler was tried
	ThrowInHandler int // throws evaluated while a recovery expression was running
	RecInHandler   int // recovery operators entered while a recovery expression was running
	ThrowUnhandled int
	SiblingRec     int // recovery operators entered after another one at the same nesting depth was left
	LRGrowths      int // successful growth steps of left-recursive rules
	LRSeedUses     int
}

type state struct {
	m map[string]any
}

func (s *state) snapshot() string {
	if s == nil {
		return "-"
	}
	return mon.CanonState(s.m)
}

func (s *state) clone() *state {
	n := &state{m: make(map[string]any, len(s.m))}
	for k, v := range s.m {
		if b, ok := v.(*mon.Box); ok {
			n.m[k] = b.Clone()
		} else if l, ok := v.(mon.IntList); ok {
			n.m[k] = l.Clone()
		} else {
			n.m[k] = v
		}
	}
	return n
}

type handler struct {
	labels map[string]bool
	expr   *gast.Expr
	up     *handler
}

type frame map[string]any

type budgetPanic struct{}
type capPanic struct{}
type reentryPanic struct{ key string }
type blockPanic struct {
	kind int
	id   int
}

type interp struct {
	g    *gast.Grammar
	in   []byte
	o    Opts
	res  *Result
	cnt  uint64
	glog string
	// raw error list (before dedupe)
	errs []ErrRec
	// farthest failure
	failOff  int
	expected []string
	// positions
	line, col []int
	active    map[string]bool
	depth     int
	usesState bool
	// where the parser "is" when a panic happens (for the recovered-panic error)
	curPos    int
	curRule   *gast.Rule
	panicking bool
	predMemo  map[[2]int]bool
	memoAll   map[[2]int]*memoEntry
	bindLog   []binding
	inHandler int
	recDepth  int
	recLeft   map[int]bool
	// left recursion
	lrRules map[string]bool
	seeds   map[string]*seed
	growing map[int][]string
	an      *gast.Analysis
}

type seed struct {
	ok   bool
	end  int
	val  any
	st   *state
	kept bool // LRKeepSeeds: a finished result served to later references (which keep their own state)
}

type binding struct {
	fp   uintptr
	name string
}

type memoEntry struct {
	ok     bool
	end    int
	val    any
	labels frame
}

// Run evaluates the grammar on the input under the options.
func Run(g *gast.Grammar, in []byte, o Opts) (res *Result) {
	it := &interp{g: g, in: in, o: o, res: &Result{}, active: map[string]bool{}, usesState: g.UsesState}
	if it.o.StepCap == 0 {
		it.o.StepCap = 3_000_000
	}
	if it.o.MaxEvents == 0 {
		it.o.MaxEvents = 100000
	}
	it.positions()
	if o.LR {
		it.an = gast.Analyze(g)
		it.lrRules = it.an.LeftRecursive()
		it.seeds = map[string]*seed{}
		it.growing = map[int][]string{}
	}
	res = it.res
	start := g.Rule(g.Rules[0].Name)
	if o.Entry != "" {
		start = g.Rule(o.Entry)
	}
	var st *state
	if it.usesState {
		st = &state{m: map[string]any{}}
		if o.Init > 0 {
			st = &state{m: mon.InitialState(o.Init)}
		}
	}
	finalState := st
	ok, end, val := false, 0, any(nil)
	func() {
		defer func() {
			if e := recover(); e != nil {
				switch x := e.(type) {
				case capPanic:
					res.Capped = true
				case reentryPanic:
					res.Reentry = x.key
					res.Capped = true
				case budgetPanic:
					res.Budget = true
					res.Panicked = true
					if o.NoRecover {
						res.Panic = "error:max number of expressions parsed"
					} else {
						it.addErr(it.curPos, it.curRule, "max number of expressions parsed", "other", true)
					}
				case blockPanic:
					res.Panicked = true
					msg := mon.PanicMsg(x.kind, x.id)
					if o.NoRecover {
						res.Panic = [...]string{"", "error:", "string:", "val:"}[x.kind] + msg
					} else {
						kind := "other"
						if x.kind == 1 {
							kind = "panicerr"
						}
						it.addErr(it.curPos, it.curRule, msg, kind, true)
					}
				default:
					panic(e)
				}
				ok, end, val = false, it.curPos, nil
			}
		}()
		// the first read happens before any rule is active
		it.curPos, it.curRule = 0, nil
		it.landOn(0, nil)
		ok, end, val, finalState = it.evalRule(start, 0, st, nil, false)
	}()
	res.ExprCnt = it.cnt
	res.GLog = it.glog
	if res.Capped {
		return res
	}
	res.OK, res.End, res.Val = ok, end, val
	if !ok {
		res.Val = nil
		if !res.Panicked {
			res.End = 0
		}
	}
	res.ValCanon = mon.Canon(res.Val)
	if finalState != nil {
		res.FinalState = finalState.snapshot()
	}
	if !ok && !res.Panicked && len(it.errs) == 0 {
		// synthesize the farthest-failure error
		set := map[string]bool{}
		for _, w := range it.expected {
			set[w] = true
		}
		eof := set["!."]
		delete(set, "!.")
		exp := make([]string, 0, len(set))
		for w := range set {
			exp = append(exp, w)
		}
		sort.Strings(exp)
		if eof {
			exp = append(exp, "EOF")
		}
		res.Expected = exp
		res.FailOff = it.failOff
		res.NoMatchErr = true
		msg := "no match found, expected: " + listJoin(exp)
		l, c := it.posAt(it.failOff)
		er := ErrRec{Line: l, Col: c, Off: it.failOff, Inner: msg, Kind: "other"}
		if it.failOff == 0 {
			// the initial farthest position is 1:1; posfn(0) differs only for a leading newline
			er.Line, er.Col = 1, 1
			er.AltLine, er.AltCol = l, c
		}
		it.errs = append(it.errs, er)
	}
	// de-duplicate by rendered message, first occurrence wins
	seen := map[string]bool{}
	for _, e := range it.errs {
		m := e.Msg(o.File)
		if seen[m] {
			continue
		}
		seen[m] = true
		res.Errs = append(res.Errs, e)
	}
	return res
}

func listJoin(l []string) string {
	switch len(l) {
	case 0:
		return ""
	case 1:
		return l[0]
	}
	return strings.Join(l[:len(l)-1], ", ") + " or " + l[len(l)-1]
}

// positions precomputes (line, col) for every offset on the decode chain, including EOF.
func (it *interp) positions() {
	n := len(it.in)
	it.line = make([]int, n+1)
	it.col = make([]int, n+1)
	line, col := 1, 0
	i := 0
	for i < n {
		r, w := utf8.DecodeRune(it.in[i:])
		col++
		if r == '\n' {
			line++
			col = 0
		}
		it.line[i], it.col[i] = line, col
		i += w
	}
	it.line[n], it.col[n] = line, col+1
}

func (it *interp) posAt(off int) (int, int) { return it.line[off], it.col[off] }

// Positions returns the (line, col) tables of an input under the documented position convention
// (index = byte offset of a rune start, or len(in) for EOF; other entries are zero).
func Positions(in []byte) (line, col []int) {
	it := &interp{in: in}
	it.positions()
	return it.line, it.col
}

// decode returns the rune at off: eof, or (rune, width, invalid).
func (it *interp) decode(off int) (r rune, w int, eof, invalid bool) {
	if off >= len(it.in) {
		return 0, 0, true, false
	}
	r, w = utf8.DecodeRune(it.in[off:])
	if r == utf8.RuneError && w == 1 {
		return r, 1, false, true
	}
	return r, w, false, false
}

// landOn is called whenever the parser advances onto offset off (reads the rune there).
func (it *interp) landOn(off int, rule *gast.Rule) {
	_, _, eof, invalid := it.decode(off)
	if eof || !invalid {
		return
	}
	it.res.InvalidAt = append(it.res.InvalidAt, off)
	if !it.o.AllowInvalid {
		it.addErr(off, rule, "invalid encoding", "other", false)
	}
}

func (it *interp) addErr(off int, rule *gast.Rule, inner, kind string, isPanic bool) {
	l, c := it.posAt(off)
	e := ErrRec{Line: l, Col: c, Off: off, Inner: inner, Kind: kind, IsPanic: isPanic}
	if rule != nil {
		e.HasRule = true
		e.Rule = rule.Name
		if rule.Display != "" {
			// the display name is shown as written in the grammar, i.e. as the quoted literal
			e.Rule = gast.LitSrc(rule.Display, false)
		}
	}
	it.errs = append(it.errs, e)
}

// fail records a terminal evaluation for the farthest-failure model.
func (it *interp) fail(matched bool, off int, want string, inv bool) {
	if matched != inv {
		return
	}
	if off < it.failOff {
		return
	}
	if off > it.failOff {
		it.failOff = off
		it.expected = it.expected[:0]
	}
	if inv {
		want = "!" + want
	}
	it.expected = append(it.expected, want)
}

func (it *interp) event(kind byte, e *gast.Expr, off int, text []byte, fr frame, st *state) string {
	ls := make([]mon.L, 0, len(e.Params))
	for _, p := range e.Params {
		ls = append(ls, mon.L{K: p, V: fr[p]})
	}
	labels := mon.CanonLabels(ls)
	l, c := it.posAt(off)
	ev := mon.FormatEvent(kind, e.Code.ID, l, c, off, text, labels, st.snapshot(), it.glog)
	if len(it.res.Trace) >= it.o.MaxEvents {
		it.res.Dropped++
	} else {
		it.res.Trace = append(it.res.Trace, ev)
	}
	if e.Code.Spec.G {
		it.glog += string(kind) + strconv.Itoa(e.Code.ID) + ","
	}
	return labels
}

func (it *interp) evalRule(r *gast.Rule, pos int, st *state, h *handler, inv bool) (bool, int, any, *state) {
	if it.o.DetectReentry {
		key := r.Name + "@" + strconv.Itoa(pos)
		if it.active[key] {
			it.panicking = true
			panic(reentryPanic{key})
		}
		it.active[key] = true
		defer delete(it.active, key)
	}
	if it.lrRules[r.Name] {
		return it.evalLR(r, pos, st, h, inv)
	}
	return it.eval(r.Expr, pos, st, frame{}, h, r, inv)
}

// evalLR gives a left-recursive rule the meaning the property states: the non-recursive
// alternatives produce a first result; then, as long as the match gets longer, the body is
// evaluated again with the recursive reference standing for the result so far (so the value is
// left-nested); errors and state changes of the final, non-extending attempt are dropped. The
// first rule of a cycle that is entered at an offset heads the iteration; the other rules of the
// cycle are evaluated plainly while it runs.
func (it *interp) evalLR(r *gast.Rule, pos int, st *state, h *handler, inv bool) (bool, int, any, *state) {
	key := r.Name + "@" + strconv.Itoa(pos)
	if sd, ok := it.seeds[key]; ok {
		it.res.LRSeedUses++
		if !sd.ok {
			return false, pos, nil, st
		}
		if sd.kept {
			return true, sd.end, sd.val, st
		}
		return true, sd.end, sd.val, sd.st
	}
	for _, head := range it.growing[pos] {
		if it.an.SameCycle(head, r.Name) {
			// a non-heading member of the cycle that is being iterated at this offset
			return it.eval(r.Expr, pos, st, frame{}, h, r, inv)
		}
	}
	it.growing[pos] = append(it.growing[pos], r.Name)
	cur := &seed{ok: false, end: pos, st: st}
	nerr := len(it.errs)
	for depth := 0; ; depth++ {
		it.seeds[key] = cur
		ok, end, v, nst := it.eval(r.Expr, pos, st, frame{}, h, r, inv)
		if !ok || (end <= cur.end && depth != 0) {
			it.errs = it.errs[:nerr] // the non-extending attempt leaves no errors behind
			break
		}
		cur = &seed{ok: true, end: end, val: v, st: nst}
		nerr = len(it.errs)
		it.res.LRGrowths++
	}
	it.growing[pos] = it.growing[pos][:len(it.growing[pos])-1]
	// a later reference at the same offset is evaluated afresh (pure semantics: same match, its
	// blocks run again, its errors are reported again and de-duplicated)
	delete(it.seeds, key)
	if it.o.LRKeepSeeds {
		kp := *cur
		kp.kept = true
		it.seeds[key] = &kp
	}
	if !cur.ok {
		return false, pos, nil, st
	}
	return true, cur.end, cur.val, cur.st
}

// eval is the big-step relation: (ok, end, value, state'). On failure end==pos and state'==st.
func (it *interp) eval(e *gast.Expr, pos int, st *state, fr frame, h *handler, rule *gast.Rule, inv bool) (ok bool, end int, val any, nst *state) {
	it.cnt++
	it.curPos, it.curRule = pos, rule
	if it.o.MaxExpr > 0 && it.cnt > it.o.MaxExpr {
		it.panicking = true
		panic(budgetPanic{})
	}
	if it.cnt > it.o.StepCap {
		it.panicking = true
		panic(capPanic{})
	}
	if it.o.MemoAll {
		if it.memoAll == nil {
			it.memoAll = map[[2]int]*memoEntry{}
		}
		key := [2]int{e.ID, pos}
		if m, hit := it.memoAll[key]; hit {
			for k, v := range m.labels {
				fr[k] = v
			}
			it.curPos, it.curRule = m.end, rule
			return m.ok, m.end, m.val, st
		}
		logStart := len(it.bindLog)
		defer func() {
			if it.panicking {
				return
			}
			// the labels this evaluation bound in its caller's frame are bound again on a hit
			bound := frame{}
			me := reflect.ValueOf(fr).Pointer()
			for _, b := range it.bindLog[logStart:] {
				if b.fp == me {
					bound[b.name] = fr[b.name]
				}
			}
			it.memoAll[key] = &memoEntry{ok: ok, end: end, val: val, labels: bound}
		}()
	}
	it.res.KindsEval[e.Kind]++
	it.depth++
	if it.depth > it.res.MaxDepth {
		it.res.MaxDepth = it.depth
	}
	defer func() {
		if it.panicking {
			return // unwinding: the parser stays where the panic happened
		}
		it.depth--
		if !ok {
			it.res.Backtracks++
		}
		// after an expression returns the parser sits at its end
		it.curPos, it.curRule = end, rule
	}()
	switch e.Kind {
	case gast.Choice:
		for _, a := range e.Subs {
			if ok, end, val, nst := it.eval(a, pos, st, frame{}, h, rule, inv); ok {
				return true, end, val, nst
			}
		}
		return false, pos, nil, st

	case gast.Seq:
		vals := make([]any, 0, len(e.Subs))
		cur, cst := pos, st
		for _, s := range e.Subs {
			ok, end, v, nst := it.eval(s, cur, cst, fr, h, rule, inv)
			if !ok {
				return false, pos, nil, st
			}
			vals = append(vals, v)
			cur, cst = end, nst
		}
		return true, cur, vals, cst

	case gast.Action:
		ok, end, _, nst := it.eval(e.Subs[0], pos, st, fr, h, rule, inv)
		if !ok {
			return false, pos, nil, st
		}
		text := it.in[pos:end]
		it.curPos, it.curRule = end, rule
		labels := it.event('A', e, pos, text, fr, nst)
		sp := e.Code.Spec
		if k := sp.PanicKind(e.Code.ID, pos); k != 0 {
			it.panicking = true
			panic(blockPanic{k, e.Code.ID})
		}
		it.blockErr(e, pos, pos, rule)
		var v any
		switch sp.R {
		case 0:
			v = mon.NodeValue(e.Code.ID, text, labels)
		case 1:
			v = nil
		case 2:
			v = append([]byte{}, text...)
		case 3:
			if len(e.Params) > 0 {
				v = fr[e.Params[0]]
			}
		case 4:
			v = e.Code.ID
		case 5:
			v = "glog:" + it.glog
		}
		return true, end, v, nst

	case gast.Labeled:
		ok, end, v, nst := it.eval(e.Subs[0], pos, st, frame{}, h, rule, inv)
		if !ok {
			return false, pos, nil, st
		}
		fr[e.Label] = v
		if it.o.MemoAll {
			it.bindLog = append(it.bindLog, binding{reflect.ValueOf(fr).Pointer(), e.Label})
		}
		return true, end, v, nst

	case gast.And:
		ok, _, _, _ := it.eval(e.Subs[0], pos, st, frame{}, h, rule, inv)
		return ok, pos, nil, st

	case gast.Not:
		ok, _, _, _ := it.eval(e.Subs[0], pos, st, frame{}, h, rule, !inv)
		return !ok, pos, nil, st

	case gast.ZeroOrOne:
		ok, end, v, nst := it.eval(e.Subs[0], pos, st, frame{}, h, rule, inv)
		if !ok {
			return true, pos, nil, st
		}
		return true, end, v, nst

	case gast.ZeroOrMore, gast.OneOrMore:
		var vals []any
		cur, cst := pos, st
		for {
			ok, end, v, nst := it.eval(e.Subs[0], cur, cst, frame{}, h, rule, inv)
			if !ok {
				break
			}
			vals = append(vals, v)
			cur, cst = end, nst
		}
		if e.Kind == gast.OneOrMore && len(vals) == 0 {
			return false, pos, nil, st
		}
		return true, cur, vals, cst

	case gast.RuleRef:
		r := it.g.Rule(e.Name)
		if r == nil {
			it.addErr(pos, rule, "undefined rule: "+e.Name, "other", false)
			return false, pos, nil, st
		}
		ok, end, v, nst := it.evalRule(r, pos, st, h, inv)
		if !ok {
			return false, pos, nil, st
		}
		return true, end, v, nst

	case gast.Lit:
		cur := pos
		want := gast.LitSrc(e.Val, e.IgnoreCase)
		for _, wr := range e.Val {
			r, w, eof, _ := it.decode(cur)
			if eof || !runeEq(r, wr, e.IgnoreCase) {
				it.fail(false, pos, want, inv)
				return false, pos, nil, st
			}
			cur += w
			it.landOn(cur, rule)
		}
		it.fail(true, pos, want, inv)
		return true, cur, it.in[pos:cur], st

	case gast.Class:
		want := e.Class.Src()
		r, w, eof, _ := it.decode(pos)
		if eof || !ClassMatch(e.Class, r) {
			it.fail(false, pos, want, inv)
			return false, pos, nil, st
		}
		it.landOn(pos+w, rule)
		it.fail(true, pos, want, inv)
		return true, pos + w, it.in[pos : pos+w], st

	case gast.Any:
		_, w, eof, _ := it.decode(pos)
		if eof {
			it.fail(false, pos, ".", inv)
			return false, pos, nil, st
		}
		it.landOn(pos+w, rule)
		it.fail(true, pos, ".", inv)
		return true, pos + w, it.in[pos : pos+w], st

	case gast.AndCode, gast.NotCode:
		if it.o.MemoPreds {
			if it.predMemo == nil {
				it.predMemo = map[[2]int]bool{}
			}
			if b, ok := it.predMemo[[2]int{e.ID, pos}]; ok {
				return b, pos, nil, st
			}
			defer func() { it.predMemo[[2]int{e.ID, pos}] = ok }()
		}
		idx := len(it.res.Trace) + it.res.Dropped
		key := mon.LabelCoin(it.event('P', e, pos, nil, fr, st))
		sp := e.Code.Spec
		if k := sp.PanicKind(e.Code.ID, key); k != 0 {
			it.panicking = true
			panic(blockPanic{k, e.Code.ID})
		}
		it.blockErr(e, key, pos, rule)
		n := 0
		if st != nil {
			n = mon.StateN(st.m)
		}
		b := sp.PredBool(e.Code.ID, key, idx, n)
		if e.Kind == gast.NotCode {
			b = !b
		}
		return b, pos, nil, st

	case gast.StateCode:
		key := mon.LabelCoin(it.event('S', e, pos, nil, fr, st))
		nst := st
		if st != nil {
			nst = st.clone()
			mon.ApplyStateOps(nst.m, e.Code.ID, key, e.Code.Spec.S)
		}
		if k := e.Code.Spec.PanicKind(e.Code.ID, key); k != 0 {
			it.panicking = true
			panic(blockPanic{k, e.Code.ID})
		}
		it.blockErr(e, key, pos, rule)
		return true, pos, nil, nst

	case gast.Throw:
		if it.inHandler > 0 {
			it.res.ThrowInHandler++
		}
		tried := 0
		for x := h; x != nil; x = x.up {
			if !x.labels[e.Label] {
				continue
			}
			if tried > 0 {
				it.res.HandlerFall++
			}
			tried++
			it.res.HandlerRuns++
			it.inHandler++
			ok, end, v, nst := it.eval(x.expr, pos, st, fr, h, rule, inv)
			it.inHandler--
			if ok {
				return true, end, v, nst
			}
		}
		if tried == 0 {
			it.res.ThrowUnhandled++
		}
		return false, pos, nil, st

	case gast.Recovery:
		ls := map[string]bool{}
		for _, l := range e.Labels {
			ls[l] = true
		}
		nh := &handler{labels: ls, expr: e.Subs[1], up: h}
		if it.inHandler > 0 {
			it.res.RecInHandler++
		}
		if it.recLeft == nil {
			it.recLeft = map[int]bool{}
		}
		if it.recLeft[it.recDepth] {
			it.res.SiblingRec++
		}
		it.recDepth++
		ok, end, v, nst := it.eval(e.Subs[0], pos, st, fr, nh, rule, inv)
		it.recDepth--
		it.recLeft[it.recDepth] = true
		if !ok {
			return false, pos, nil, st
		}
		return true, end, v, nst
	}
	panic("unknown kind")
}

// blockErr records the error a block returns (if any) at offset at.
func (it *interp) blockErr(e *gast.Expr, hashOff, at int, rule *gast.Rule) {
	switch e.Code.Spec.ErrKind(e.Code.ID, hashOff) {
	case 1:
		it.addErr(at, rule, "E"+strconv.Itoa(e.Code.ID), "own", false)
	case 2:
		it.addErr(at, rule, "sentinel", "sentinel", false)
	case 3:
		it.addErr(at, rule, "E"+strconv.Itoa(e.Code.ID)+"\nsentinel", "joined", false)
	case 4:
		it.addErr(at, rule, "SE"+strconv.Itoa(e.Code.ID), "slice", false)
	case 5:
		it.addErr(at, rule, mon.NestedErrText, "nested", false)
	case 6:
		it.addErr(at, rule, "E"+strconv.Itoa(e.Code.ID)+"@"+strconv.Itoa(len(it.glog)), "own", false)
	}
}

func runeEq(in, want rune, ic bool) bool {
	if in == want {
		return true
	}
	if !ic {
		return false
	}
	return unicode.ToLower(in) == unicode.ToLower(want)
}

// ClassMatch is the documented class semantics: r matches when it is one of the chars, inside a
// range or in a Unicode class; with i when some member of the class equals r up to case; ^ inverts.
func ClassMatch(c *gast.ClassSpec, r rune) bool {
	m := classMember(c, r)
	if !m && c.IgnoreCase {
		// "some member equals r up to case": r's lower case, its upper case, the upper case of its
		// lower case (runes such as the Kelvin sign fold onto a letter that is not their own upper
		// case), or a listed char with the same lower case
		lr := unicode.ToLower(r)
		m = classMember(c, lr) || classMember(c, unicode.ToUpper(r)) || classMember(c, unicode.ToUpper(lr))
		for _, ch := range c.Chars {
			if unicode.ToLower(ch) == lr {
				m = true
			}
		}
	}
	return m != c.Inverted
}

func classMember(c *gast.ClassSpec, r rune) bool {
	for _, ch := range c.Chars {
		if ch == r {
			return true
		}
	}
	for _, rg := range c.Ranges {
		if r >= rg[0] && r <= rg[1] {
			return true
		}
	}
	for _, u := range c.UClasses {
		if t := gast.UnicodeTable(u); t != nil && unicode.Is(t, r) {
			return true
		}
	}
	return false
}

// Command pv is the driver: pv check <property> [--tier quick|thorough] [--seed n], pv replay <file>.
package main

import (
	"fmt"
	"os"
	"strconv"

	"verif/engine/checks"
)

func usage() {
	fmt.Fprintln(os.Stderr, "usage: pv check <Cnn> [--tier quick|thorough] [--seed n] | pv replay <file>")
	os.Exit(2)
}

func main() {
	if len(os.Args) < 3 {
		usage()
	}
	switch os.Args[1] {
	case "check":
		prop := os.Args[2]
		tier := os.Getenv("VERIF_TIER")
		if tier == "" {
			tier = "quick"
		}
		seed := int64(1)
		if s := os.Getenv("VERIF_SEED"); s != "" {
			if n, err := strconv.ParseInt(s, 10, 64); err == nil {
				seed = n
			}
		}
		for i := 3; i < len(os.Args); i++ {
			switch os.Args[i] {
			case "--tier":
				i++
				tier = os.Args[i]
			case "--seed":
				i++
				seed, _ = strconv.ParseInt(os.Args[i], 10, 64)
			}
		}
		f := checks.Registry[prop]
		if f == nil {
			fmt.Fprintln(os.Stderr, "unknown property", prop)
			os.Exit(2)
		}
		c, err := checks.NewCtx(prop, tier, seed)
		if err != nil {
			fmt.Fprintln(os.Stderr, "BROKEN-CHECK cannot set up:", err)
			os.Exit(2)
		}
		f(c)
		os.Exit(c.Finish())
	case "replay":
		os.Exit(checks.Replay(os.Args[2]))
	case "warm":
		os.Exit(checks.Warm())
	case "regen":
		if os.Args[2] == "--list" {
			os.Exit(checks.PrintArtifacts())
		}
		if os.Args[2] == "--write" {
			os.Exit(checks.RegenWrite())
		}
		os.Exit(checks.RegenCheck())
	default:
		usage()
	}
}

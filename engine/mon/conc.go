package mon

import (
	"bufio"
	"crypto/sha256"
	"encoding/json"
	"fmt"
	"os"
	"runtime"
	"strings"
	"sync"
	"sync/atomic"
)

// ConcSummary is what the concurrent stress mode reports.
type ConcSummary struct {
	Cases          int      `json:"cases"`
	Goroutines     int      `json:"goroutines"`
	Parses         int64    `json:"parses"`
	Mismatches     int64    `json:"mismatches"`
	MismatchSample []string `json:"mismatch_sample,omitempty"`
	MaxInFlight    int64    `json:"max_in_flight"`
	OverlapParses  int64    `json:"parses_started_while_another_ran"`
	StateMapIDs    int      `json:"state_map_ids"`
	SharedMapIDs   int      `json:"state_map_ids_seen_by_2plus_goroutines"`
	PkgOptPairs    int      `json:"distinct_pkg_option_pairs"`
	CoFlightPairs  int      `json:"distinct_pairs_in_flight_together"`
	Canary         bool     `json:"canary_ran"`
	GOMAXPROCS     int      `json:"gomaxprocs"`
	BaselinePanics int      `json:"baseline_escaped_panics"`
	Unstable       int      `json:"results_changed_by_a_later_call"`
	UnstableSample []string `json:"unstable_sample,omitempty"`
	ReaderCases    int      `json:"cases_through_parsereader"`
	Touched        int      `json:"parses_that_wrote_to_the_callers_buffer"`
	TouchedSample  []string `json:"touched_sample,omitempty"`
}

func digestResult(r *Result) string {
	h := sha256.New()
	fmt.Fprintf(h, "%s|%v|%s|%d|%s|%s|%s|%d|%s\n", r.Val, r.ErrNil, r.ErrStr, r.End, r.Panic, r.FinalState, r.GLog, len(r.Trace), r.Unstable)
	for _, e := range r.Trace {
		h.Write([]byte(e))
		h.Write([]byte{'\n'})
	}
	return fmt.Sprintf("%x", h.Sum(nil)[:12])
}

var canaryCounter int

//go:noinline
func canaryBump() { canaryCounter++ }

// MainConcurrent: sequential baseline, then G goroutines hammer the same packages; every result
// must equal its solo result.
func MainConcurrent(casesFile, outFile string, goroutines, iters int, canary bool) {
	cf, err := os.Open(casesFile)
	if err != nil {
		fmt.Fprintln(os.Stderr, err)
		os.Exit(2)
	}
	var cases []*Case
	sc := bufio.NewScanner(cf)
	sc.Buffer(make([]byte, 1<<20), 1<<28)
	for sc.Scan() {
		var c Case
		if json.Unmarshal(sc.Bytes(), &c) == nil {
			cases = append(cases, &c)
		}
	}
	// Debug(true) traces go to the process-wide os.Stdout by design; it is pointed at the null device
	// once, before any goroutine starts (cases with DebugQuiet do not capture the trace)
	if null, err := os.OpenFile(os.DevNull, os.O_WRONLY, 0); err == nil {
		os.Stdout = null
	}
	sum := &ConcSummary{Cases: len(cases), Goroutines: goroutines, GOMAXPROCS: runtime.GOMAXPROCS(0)}
	// cold start: before anything has run in this process, the goroutines run every case once at
	// the same time (lazily initialised shared data would be written here); the digests are compared
	// with the sequential baseline computed afterwards
	cold := make([]string, len(cases))
	{
		var wg sync.WaitGroup
		var next atomic.Int64
		for g := 0; g < goroutines; g++ {
			wg.Add(1)
			go func() {
				defer wg.Done()
				for {
					i := int(next.Add(1)) - 1
					if i >= len(cases) {
						return
					}
					c := *cases[i]
					c.Stress = 2
					if f := Lookup(c.Pkg); f != nil {
						cold[i] = digestResult(f(&c))
					}
				}
			}()
		}
		wg.Wait()
	}
	base := make([]string, len(cases))
	pairs := map[string]bool{}
	for i, c := range cases {
		f := Lookup(c.Pkg)
		if f == nil {
			fmt.Fprintln(os.Stderr, "no package", c.Pkg)
			os.Exit(2)
		}
		cc := *c
		cc.Stress = 0
		r := f(&cc)
		if r.Panic != "" {
			sum.BaselinePanics++
		}
		if c.Reader {
			sum.ReaderCases++
		}
		if r.Unstable != "" {
			sum.Unstable++
			if len(sum.UnstableSample) < 3 {
				sum.UnstableSample = append(sum.UnstableSample, fmt.Sprintf("case %s pkg %s input %q: %s", c.ID, c.Pkg, c.Input, r.Unstable))
			}
		}
		if r.Touched != "" {
			sum.Touched++
			if len(sum.TouchedSample) < 3 {
				sum.TouchedSample = append(sum.TouchedSample, fmt.Sprintf("case %s pkg %s: %s", c.ID, c.Pkg, r.Touched))
			}
		}
		base[i] = digestResult(r)
		pairs[fmt.Sprintf("%s|%t%t%t%t|%s", c.Pkg, c.Memo, c.Stats, c.AllowInvalid, c.NoRecover, c.Entry)] = true
	}
	sum.PkgOptPairs = len(pairs)
	for i := range cases {
		if cold[i] != "" && cold[i] != base[i] {
			sum.Mismatches++
			if len(sum.MismatchSample) < 5 {
				sum.MismatchSample = append(sum.MismatchSample, fmt.Sprintf("cold-start case %s pkg %s input %q: result differs from its solo result", cases[i].ID, cases[i].Pkg, cases[i].Input))
			}
		}
	}
	coldMism := sum.Mismatches
	if canary {
		// a deliberate race: the detector must report it, otherwise the run proves nothing
		var wg sync.WaitGroup
		for g := 0; g < 2; g++ {
			wg.Add(1)
			go func() {
				defer wg.Done()
				for i := 0; i < 2000; i++ {
					canaryBump()
				}
			}()
		}
		wg.Wait()
		sum.Canary = true
	}
	var inflight, maxIn, parses, mism, overlap atomic.Int64
	var mu sync.Mutex
	mapSeen := map[uintptr]map[int]bool{}
	co := map[string]bool{}
	current := make([]atomic.Int64, goroutines) // case index+1 currently run by each goroutine
	var wg sync.WaitGroup
	for g := 0; g < goroutines; g++ {
		wg.Add(1)
		go func(g int) {
			defer wg.Done()
			for i := 0; i < iters; i++ {
				idx := int((uint32(g)*7919 + uint32(i)*104729 + uint32(g*i)) % uint32(len(cases)))
				c := *cases[idx]
				c.Stress = 1 + (g+i)%5
				n := inflight.Add(1)
				if n > 1 {
					overlap.Add(1)
					// who else is running right now
					for og := range current {
						if oc := current[og].Load(); oc > 0 && og != g && (i%17 == 0) {
							a, b := cases[idx], cases[oc-1]
							key := fmt.Sprintf("%s/%t|%s/%t", a.Pkg, a.Memo, b.Pkg, b.Memo)
							mu.Lock()
							co[key] = true
							mu.Unlock()
						}
					}
				}
				for {
					m := maxIn.Load()
					if n <= m || maxIn.CompareAndSwap(m, n) {
						break
					}
				}
				current[g].Store(int64(idx + 1))
				r := Lookup(c.Pkg)(&c)
				current[g].Store(0)
				inflight.Add(-1)
				parses.Add(1)
				if d := digestResult(r); d != base[idx] {
					if mism.Add(1) <= 5 {
						mu.Lock()
						sum.MismatchSample = append(sum.MismatchSample, fmt.Sprintf("case %s pkg %s input %q: concurrent result differs from its solo result: val %s err %q trace %d events", c.ID, c.Pkg, c.Input, trunc(r.Val), trunc(r.ErrStr), len(r.Trace)))
						mu.Unlock()
					}
				}
				if len(r.StateIDs) > 0 && i%7 == 0 {
					mu.Lock()
					for _, id := range r.StateIDs {
						s := mapSeen[id]
						if s == nil {
							s = map[int]bool{}
							mapSeen[id] = s
						}
						s[g] = true
					}
					mu.Unlock()
				}
				if g == 0 && i%400 == 399 {
					runtime.GC() // cycles the sync.Pool
				}
			}
		}(g)
	}
	wg.Wait()
	sum.Parses = parses.Load()
	sum.Mismatches = mism.Load() + coldMism
	sum.MaxInFlight = maxIn.Load()
	sum.OverlapParses = overlap.Load()
	sum.StateMapIDs = len(mapSeen)
	for _, s := range mapSeen {
		if len(s) >= 2 {
			sum.SharedMapIDs++
		}
	}
	sum.CoFlightPairs = len(co)
	b, _ := json.Marshal(sum)
	os.WriteFile(outFile, b, 0o644)
}

func trunc(s string) string {
	if len(s) > 200 {
		return s[:200] + "..."
	}
	return strings.ToValidUTF8(s, "?")
}

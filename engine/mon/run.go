package mon

import (
	"reflect"
	"bufio"
	"encoding/json"
	"fmt"
	"os"
	"regexp"
	"runtime/debug"
	"runtime/metrics"
	"strconv"
	"strings"
	"sync"
	"sync/atomic"
	"time"
	"unicode/utf8"
)

// Case is one parse to run in the child.
type Case struct {
	ID           string `json:"id"`
	Pkg          string `json:"pkg"`
	Input        []byte `json:"in"`
	File         string `json:"file,omitempty"`
	Entry        string `json:"entry,omitempty"`
	Memo         bool   `json:"memo,omitempty"`
	Debug        bool   `json:"debug,omitempty"`
	Stats        bool   `json:"stats,omitempty"`
	AllowInvalid bool   `json:"allow,omitempty"`
	NoRecover    bool   `json:"norecover,omitempty"`
	MaxExpr      uint64 `json:"maxexpr,omitempty"`
	Stress       int    `json:"stress,omitempty"`
	MaxEvents    int    `json:"maxev,omitempty"`
	NoTrace      bool   `json:"notrace,omitempty"` // do not ship the event list back (only its hash/len)
	Init         int    `json:"init,omitempty"`    // >0: InitState("n", Init), InitState("box", &Box{Init}), InitState("k<Init%3>", "init")
	TableOpts    int    `json:"tableopts,omitempty"` // >0: Parse(file, in, table[:TableOpts]...) with a package-level option table (spare capacity behind the prefix); nothing per-call is installed, no trace
	SharedOpts   bool   `json:"sharedopts,omitempty"` // the call also passes a package-level []Option (neutral values) that all calls share
	DebugQuiet   bool   `json:"debugquiet,omitempty"` // Debug(true) without capturing the trace (concurrent mode: stdout is the null device)
	StatsPre     uint64 `json:"statspre,omitempty"` // with Stats: the caller's Stats struct already holds this ExprCnt (it was used for an earlier parse)
	StatsReused  bool   `json:"statsreused,omitempty"` // Statistics with one package-level Stats value that every such call of the process shares (sequential runs only)
	InitProbe    bool   `json:"initprobe,omitempty"` // return the result of the Parse call the harness made during package initialisation
	Reader       bool   `json:"reader,omitempty"`  // call ParseReader instead of Parse, then parse something else through ParseReader and look at the first result again
}

// ErrRec is one element of the returned error list as seen from inside the package.
type ErrRec struct {
	Msg       string   `json:"msg"`
	Inner     string   `json:"inner"`
	InnerKind string   `json:"ik"` // own, sentinel(identity checked), panicerr, other
	Line      int      `json:"l"`
	Col       int      `json:"c"`
	Off       int      `json:"o"`
	Prefix    string   `json:"pfx"`
	Expected  []string `json:"exp,omitempty"`
	TypeOK    bool     `json:"tok"`
}

// DbgAgg is the digest of a Debug(true) trace computed inside the child.
type DbgAgg struct {
	Lines      int            `json:"lines"`
	Kinds      map[string]int `json:"kinds"`
	MaxDepth   int            `json:"maxdepth"`
	PosBad     string         `json:"posbad,omitempty"`  // first line whose (line,col) != posfn(offset)
	Reentry    string         `json:"reentry,omitempty"` // first (rule,offset) entered while already active
	Unbalanced string         `json:"unbal,omitempty"`   // first < without matching >
	Positions  int            `json:"positions"`         // distinct offsets seen
	Clones     int            `json:"clones"`
	Restores   int            `json:"restores"`
	// PerKindMax: for each expression kind, the largest number of evaluations entered at one single
	// offset, and that offset (under Memoize it cannot exceed the number of expressions of the kind)
	PerKindMax map[string]int `json:"pkmax,omitempty"`
	PerKindOff map[string]int `json:"pkoff,omitempty"`
}

// Result is what the child reports for one case.
type Result struct {
	ID           string    `json:"id"`
	Val          string    `json:"val"`
	ErrNil       bool      `json:"errnil"`
	ErrType      string    `json:"errtype,omitempty"`
	Errs         []ErrRec  `json:"errs,omitempty"`
	ErrStr       string    `json:"errstr,omitempty"`
	End          int       `json:"end"`
	ExprCnt      uint64    `json:"exprcnt"`
	Trace        []string  `json:"trace,omitempty"`
	TraceLen     int       `json:"tracelen"`
	Dropped      int       `json:"dropped,omitempty"`
	Panic        string    `json:"panic,omitempty"`
	Init         *Result   `json:"init,omitempty"` // InitProbe: the main fields hold what the call returned during package initialisation, Init what the same call returns afterwards
	InputChanged bool      `json:"inchg,omitempty"`
	Unstable     string    `json:"unstable,omitempty"` // the returned value changed after a later ParseReader call
	Touched      string    `json:"touched,omitempty"`  // the caller's buffer (input bytes or its spare capacity) was written to
	Shape        string    `json:"shape,omitempty"`    // nil-vs-empty structure of the value (mon.Shape), capped
	MemoEntries  int       `json:"memo,omitempty"`
	ChoiceEvals  int       `json:"choiceevals,omitempty"` // sum of Stats.ChoiceAltCnt = choice expressions actually evaluated
	GLog         string    `json:"glog,omitempty"`
	FinalState   string    `json:"fstate,omitempty"`
	StateIDs     []uintptr `json:"-"`
	Dbg          *DbgAgg   `json:"dbg,omitempty"`
	Died         string    `json:"died,omitempty"`
	Timeout      bool      `json:"timeout,omitempty"`
	Retried      bool      `json:"retried,omitempty"`
	Cnt1         uint64    `json:"cnt1,omitempty"`
	Cnt2         uint64    `json:"cnt2,omitempty"`
	NanoS        int64     `json:"ns,omitempty"`
}

// RunFunc is implemented by the in-package harness of every generated parser.
type RunFunc func(c *Case) *Result

var (
	regMu    sync.Mutex
	registry = map[string]RunFunc{}
)

// Register is called from the init() of each in-package harness.
func Register(pkg string, f RunFunc) {
	regMu.Lock()
	registry[pkg] = f
	regMu.Unlock()
}

// Lookup returns the harness of a package.
func Lookup(pkg string) RunFunc {
	regMu.Lock()
	defer regMu.Unlock()
	return registry[pkg]
}

var live atomic.Pointer[uint64]

// SetLive publishes the address of the running parser's expression counter for the watchdog.
func SetLive(p *uint64) { live.Store(p) }

func liveCnt() uint64 {
	p := live.Load()
	if p == nil {
		return 0
	}
	return *p // racy read by design; only used in non-race builds for the frozen-counter observation
}

// CanonPanic renders a panic payload that escaped Parse.
func CanonPanic(e any) string {
	switch x := e.(type) {
	case *PanicErr:
		return "error:" + x.Error()
	case error:
		return "error:" + x.Error()
	case string:
		return "string:" + x
	case PanicVal:
		return "val:" + fmt.Sprint(x)
	default:
		return fmt.Sprintf("other:%T:%v", e, e)
	}
}

// InnerKind classifies the Inner error of a parserError.
func InnerKind(err error) string {
	switch err.(type) {
	case *OwnErr:
		return "own"
	case *PanicErr:
		return "panicerr"
	case SliceErr:
		return "slice"
	}
	if err == ErrSentinel {
		return "sentinel"
	}
	if _, ok := err.(interface{ Unwrap() []error }); ok {
		return "joined"
	}
	if t := reflect.TypeOf(err); t != nil && t.Name() == "errList" {
		return "nested"
	}
	return "other"
}

// PosFn is the documented position function: line/col at byte offset off after a forward scan.
func PosFn(in []byte, off int) (line, col int) {
	line, col = 1, 0
	i := 0
	for {
		if i >= len(in) {
			col++ // EOF pseudo-rune
			return
		}
		r, w := utf8.DecodeRune(in[i:])
		col++
		if r == '\n' {
			line++
			col = 0
		}
		if i >= off {
			return
		}
		i += w
	}
}

var dbgRe = regexp.MustCompile(`^( *)(>|<|MATCH|RECURSIVE) (\d+):(\d+):(\d+): (.*)$`)

// DigestDebug folds a Debug(true) trace into aggregates; nothing of the raw trace is kept.
func DigestDebug(path string, in []byte) *DbgAgg {
	f, err := os.Open(path)
	if err != nil {
		return nil
	}
	defer f.Close()
	agg := &DbgAgg{Kinds: map[string]int{}, PerKindMax: map[string]int{}, PerKindOff: map[string]int{}}
	type ko struct {
		kind string
		off  int
	}
	perKO := map[ko]int{}
	type fr struct {
		name string
		off  int
	}
	var stack []fr
	active := map[string]int{}
	seenOff := map[int]bool{}
	posCache := map[int][2]int{}
	sc := bufio.NewScanner(f)
	sc.Buffer(make([]byte, 1<<20), 1<<26)
	for sc.Scan() {
		line := sc.Text()
		m := dbgRe.FindStringSubmatch(line)
		if m == nil {
			continue
		}
		agg.Lines++
		l, _ := strconv.Atoi(m[3])
		c, _ := strconv.Atoi(m[4])
		o, _ := strconv.Atoi(m[5])
		seenOff[o] = true
		if o >= 0 && o <= len(in) {
			pc, ok := posCache[o]
			if !ok {
				pl, pcol := PosFn(in, o)
				pc = [2]int{pl, pcol}
				posCache[o] = pc
			}
			// before the first read() the parser sits at the artificial 1:0:0
			if (pc[0] != l || pc[1] != c) && !(o == 0 && l == 1 && c == 0) && agg.PosBad == "" {
				agg.PosBad = fmt.Sprintf("%q want %d:%d", line, pc[0], pc[1])
			}
		} else if agg.PosBad == "" {
			agg.PosBad = fmt.Sprintf("%q offset out of range", line)
		}
		name := m[6]
		if i := strings.LastIndex(name, " ["); i >= 0 {
			name = name[:i]
		}
		switch m[2] {
		case ">":
			kind := name
			if i := strings.IndexByte(kind, ' '); i >= 0 {
				kind = kind[:i]
			}
			agg.Kinds[kind]++
			if strings.HasSuffix(kind, "Expr") || strings.HasSuffix(kind, "Matcher") {
				perKO[ko{kind, o}]++
				if n := perKO[ko{kind, o}]; n > agg.PerKindMax[kind] {
					agg.PerKindMax[kind] = n
					agg.PerKindOff[kind] = o
				}
			}
			switch kind {
			case "cloneState":
				agg.Clones++
			case "restoreState":
				agg.Restores++
			}
			if kind == "parseRule" {
				key := name + "@" + strconv.Itoa(o)
				if active[key] > 0 && agg.Reentry == "" {
					agg.Reentry = key
				}
				active[key]++
			}
			stack = append(stack, fr{name, o})
			if len(stack) > agg.MaxDepth {
				agg.MaxDepth = len(stack)
			}
		case "<":
			if len(stack) == 0 {
				if agg.Unbalanced == "" {
					agg.Unbalanced = line
				}
				continue
			}
			top := stack[len(stack)-1]
			stack = stack[:len(stack)-1]
			if top.name != name && agg.Unbalanced == "" {
				agg.Unbalanced = fmt.Sprintf("exit %q closes %q", name, top.name)
			}
			if strings.HasPrefix(top.name, "parseRule ") {
				active[top.name+"@"+strconv.Itoa(top.off)]--
			}
		}
	}
	agg.Positions = len(seenOff)
	return agg
}

// Main is the child's main loop: cases in, results out, pre-log before each case.
func Main() {
	if len(os.Args) >= 7 && os.Args[1] == "-conc" {
		g, _ := strconv.Atoi(os.Args[4])
		it, _ := strconv.Atoi(os.Args[5])
		MainConcurrent(os.Args[2], os.Args[3], g, it, os.Args[6] == "canary")
		return
	}
	if len(os.Args) < 4 {
		fmt.Fprintln(os.Stderr, "usage: child cases.jsonl results.jsonl prelog [caseTimeoutSec]")
		os.Exit(2)
	}
	debug.SetMaxStack(64 << 20)
	timeout := 20 * time.Second
	if len(os.Args) > 4 {
		if n, err := strconv.Atoi(os.Args[4]); err == nil && n > 0 {
			timeout = time.Duration(n) * time.Second
		}
	}
	cf, err := os.Open(os.Args[1])
	if err != nil {
		fmt.Fprintln(os.Stderr, err)
		os.Exit(2)
	}
	of, err := os.OpenFile(os.Args[2], os.O_CREATE|os.O_WRONLY|os.O_APPEND, 0o644)
	if err != nil {
		fmt.Fprintln(os.Stderr, err)
		os.Exit(2)
	}
	pf, err := os.OpenFile(os.Args[3], os.O_CREATE|os.O_WRONLY|os.O_APPEND, 0o644)
	if err != nil {
		fmt.Fprintln(os.Stderr, err)
		os.Exit(2)
	}
	out := bufio.NewWriterSize(of, 1<<20)
	enc := json.NewEncoder(out)
	var cur atomic.Pointer[string]
	var started atomic.Int64
	// watchdog: a case running longer than timeout is reported with two samples of the live
	// expression counter, then the process exits (the driver restarts after that case).
	heapSample := []metrics.Sample{{Name: "/memory/classes/heap/objects:bytes"}}
	const hardHeap = 4 << 30
	go func() {
		for {
			time.Sleep(200 * time.Millisecond)
			id := cur.Load()
			st := started.Load()
			if id == nil || st == 0 {
				continue
			}
			// a case whose live heap explodes is treated like one that does not return (the machine has
			// no memory limit of its own): same report, taken earlier
			metrics.Read(heapSample)
			heavy := heapSample[0].Value.Kind() == metrics.KindUint64 && heapSample[0].Value.Uint64() > hardHeap
			if heavy || time.Since(time.Unix(0, st)) > timeout {
				c1 := liveCnt()
				if heavy {
					time.Sleep(100 * time.Millisecond)
				} else {
					time.Sleep(time.Second)
				}
				c2 := liveCnt()
				if cur.Load() != id {
					continue
				}
				regMu.Lock() // block nothing important; just serialise output
				out.Flush()
				b, _ := json.Marshal(&Result{ID: *id, Timeout: true, Cnt1: c1, Cnt2: c2})
				of.Write(append(b, '\n'))
				os.Exit(3)
			}
		}
	}()
	sc := bufio.NewScanner(cf)
	sc.Buffer(make([]byte, 1<<20), 1<<28)
	for sc.Scan() {
		var c Case
		if err := json.Unmarshal(sc.Bytes(), &c); err != nil {
			fmt.Fprintln(os.Stderr, "bad case:", err)
			os.Exit(2)
		}
		pf.WriteString(c.ID + "\n")
		f := Lookup(c.Pkg)
		if f == nil {
			enc.Encode(&Result{ID: c.ID, Died: "no such package " + c.Pkg})
			out.Flush()
			continue
		}
		id := c.ID
		cur.Store(&id)
		started.Store(time.Now().UnixNano())
		t0 := time.Now()
		r := f(&c)
		r.NanoS = time.Since(t0).Nanoseconds()
		started.Store(0)
		cur.Store(nil)
		r.TraceLen = len(r.Trace)
		if c.NoTrace {
			r.Trace = nil
		}
		enc.Encode(r)
		out.Flush() // a later case may kill the process; nothing may stay buffered
	}
	out.Flush()
}

// Package mon is the monitor runtime. It is compiled twice: as verif/engine/mon inside the
// driver (so the reference model produces byte-identical event strings) and, copied verbatim,
// as vb/mon inside every scratch batch module, where the code blocks of generated grammars call
// into it. It must only depend on the standard library.
package mon

import (
	"errors"
	"fmt"
	"reflect"
	"runtime"
	"sort"
	"strconv"
	"strings"
	"time"
)

// Spec is the behaviour the generator chose for one code block. It is written as a literal into
// the grammar's code block and is also known to the reference model.
type Spec struct {
	R   int  // action return: 0 node string, 1 nil, 2 []byte copy of text, 3 first label value, 4 id
	E   int  // error: 0 none, 1 own always, 2 own when hash%3==0, 3 sentinel always, 4 sentinel when hash%2==0, 5 errors.Join(own, sentinel) always, 6 a slice-typed (uncomparable) error always
	P   int  // panic: 0 none, 1 error when hash%5==0, 2 string when hash%5==0, 3 int when hash%7==0, 4 error always
	B   int  // predicate bool: 0 true, 1 false, 2 coin(labels, event index), 3 state n even, 4 coin(labels)
	S   int  // state ops bitmask (state blocks): 1 inc n, 2 append id to s, 4 box push id, 8 set k<id%3>=off, 16 delete k<(id+1)%3>
	Scr bool // scribble on the state store inside an action / predicate block (must be discarded)
	G   bool // append to the globalStore log
}

// L is one label binding passed to a block.
type L struct {
	K string
	V any
}

// Box is a state value that needs Clone to be copied properly.
type Box struct{ Items []int }

// Clone implements the generated parser's Cloner interface.
func (b *Box) Clone() any {
	if b == nil {
		return (*Box)(nil)
	}
	return &Box{Items: append([]int(nil), b.Items...)}
}

// IntList is a Cloner whose dynamic type is a slice: two keys of the store may hold slices that start at
// the same element with different lengths (all and all[:1]); each is cloned as what it is.
type IntList []int

func (l IntList) Clone() any { return append(IntList(nil), l...) }

// ErrSentinel is a shared error value used to observe Inner identity and de-duplication.
var ErrSentinel = errors.New("sentinel")

// OwnErr is the error type returned by blocks with E=1/2.
type OwnErr struct {
	ID  int
	Suf string // kind 6: "@<length of the globalStore log>", so that the same block reports another text each time it runs
}

func (e *OwnErr) Error() string { return "E" + strconv.Itoa(e.ID) + e.Suf }

// SliceErr is an error whose dynamic type is not comparable (user code may well return such a
// value, e.g. a list of field errors): a runtime that compares Inner errors with == panics on it.
type SliceErr []string

func (e SliceErr) Error() string { return "SE" + strings.Join(e, ",") }

// PanicVal is the non-error, non-string panic payload (P=3).
type PanicVal struct{ ID int }

// (deliberately neither an error nor a fmt.Stringer: the parser has to render it with %v)

// Trace collects the events of one parse. One Trace per Parse call, handed over through the
// GlobalStore("mon", tr) option, so concurrent parses never share monitor state.
type Trace struct {
	Events  []string
	Max     int // stop recording after Max events (0 = 100000)
	Dropped int
	Stress  int // >0: blocks yield / sleep (C18)
	StateID []uintptr
}

// Hash is the deterministic per-(block, offset) coin.
func Hash(id, off int) uint32 {
	x := uint32(id)*2654435761 ^ uint32(off+1)*40503
	x ^= x >> 13
	x *= 0x5bd1e995
	x ^= x >> 15
	return x
}

// ErrKind returns 0 (none), 1 (own), 2 (sentinel) or 3 (own and sentinel joined into one error).
func (sp Spec) ErrKind(id, off int) int {
	switch sp.E {
	case 1:
		return 1
	case 2:
		if Hash(id, off)%3 == 0 {
			return 1
		}
	case 3:
		return 2
	case 4:
		if Hash(id, off)%2 == 0 {
			return 2
		}
	case 5:
		return 3
	case 6:
		return 4
	case 7:
		return 5
	case 8:
		return 6
	}
	return 0
}

// NestedErrText is what the nested Parse call behind error kind 5 reports (see NestedKey).
const NestedErrText = "nested.txt:1:0 (0): invalid entrypoint"

// NestedKey: the harness stores a func() error under this globalStore key that makes a nested call of
// the package's own Parse (an included file, an embedded fragment) and returns the error of that call
// as it is - an error whose dynamic type is the generated parser's own error list.
const NestedKey = "monNested"

// PanicKind returns 0 none, 1 error, 2 string, 3 PanicVal.
func (sp Spec) PanicKind(id, off int) int {
	switch sp.P {
	case 1:
		if Hash(id+7, off)%5 == 0 {
			return 1
		}
	case 2:
		if Hash(id+7, off)%5 == 0 {
			return 2
		}
	case 3:
		if Hash(id+7, off)%7 == 0 {
			return 3
		}
	case 4:
		return 1
	}
	return 0
}

// PanicMsg is the message the parser is expected to record for a recovered panic.
func PanicMsg(kind, id int) string {
	switch kind {
	case 1:
		return "PE" + strconv.Itoa(id)
	case 2:
		return "PS" + strconv.Itoa(id)
	case 3:
		return "{" + strconv.Itoa(id) + "}"
	}
	return ""
}

// PanicErr is the error payload of P=1/4 panics.
type PanicErr struct{ ID int }

func (e *PanicErr) Error() string { return "PE" + strconv.Itoa(e.ID) }

// PredBool decides a predicate block. key is LabelCoin(labels): predicate and state blocks never
// base a decision on c.pos / c.text (pigeon leaves those stale there, see known finding F02), idx
// is the number of events recorded before this one.
func (sp Spec) PredBool(id, key, idx int, n int) bool {
	switch sp.B {
	case 0:
		return true
	case 1:
		return false
	case 2:
		return Hash(id+3, key+idx*31)%2 == 0
	case 3:
		return n%2 == 0
	case 4:
		return Hash(id+3, key)%2 == 0
	}
	return true
}

// LabelCoin folds the canonical label string into a small int.
func LabelCoin(labels string) int {
	h := uint32(2166136261)
	for i := 0; i < len(labels); i++ {
		h ^= uint32(labels[i])
		h *= 16777619
	}
	return int(h % 100003)
}

// Idx is the index the next event will get.
func (tr *Trace) Idx() int {
	if tr == nil {
		return 0
	}
	return len(tr.Events) + tr.Dropped
}

// Canon renders a parse value canonically.
func Canon(v any) string {
	var sb strings.Builder
	canon(&sb, v)
	return sb.String()
}

func canon(sb *strings.Builder, v any) {
	switch x := v.(type) {
	case nil:
		sb.WriteString("nil")
	case []byte:
		sb.WriteString("b")
		sb.WriteString(strconv.Quote(string(x)))
	case []any:
		sb.WriteByte('[')
		for i, e := range x {
			if i > 0 {
				sb.WriteByte(',')
			}
			canon(sb, e)
		}
		sb.WriteByte(']')
	case string:
		sb.WriteString("s")
		sb.WriteString(strconv.Quote(x))
	case int:
		sb.WriteString("i")
		sb.WriteString(strconv.Itoa(x))
	default:
		fmt.Fprintf(sb, "?%T:%v", v, v)
	}
}

// Shape renders only what Canon deliberately ignores: which slices inside a value are nil and
// which are empty but allocated (reflect.DeepEqual, "v == nil" in a code block and encoding/json
// tell them apart). It is compared between runs of the SAME grammar and input that must be
// observationally equal (option sets, optimized vs standard), never against the model.
func Shape(v any) string {
	var sb strings.Builder
	shape(&sb, v)
	return sb.String()
}

func shape(sb *strings.Builder, v any) {
	switch x := v.(type) {
	case nil:
		sb.WriteByte('0')
	case []byte:
		if x == nil {
			sb.WriteByte('n')
		} else if len(x) == 0 {
			sb.WriteByte('e')
		} else {
			sb.WriteByte('b')
		}
	case []any:
		if x == nil {
			sb.WriteByte('N')
			return
		}
		sb.WriteByte('[')
		for _, e := range x {
			shape(sb, e)
		}
		sb.WriteByte(']')
	default:
		sb.WriteByte('v')
	}
}

// CanonLabels renders label bindings.
func CanonLabels(ls []L) string {
	var sb strings.Builder
	for i, l := range ls {
		if i > 0 {
			sb.WriteByte(';')
		}
		sb.WriteString(l.K)
		sb.WriteByte('=')
		canon(&sb, l.V)
	}
	return sb.String()
}

// CanonState renders a state store (sorted keys).
func CanonState(st map[string]any) string {
	if st == nil {
		return "-"
	}
	keys := make([]string, 0, len(st))
	for k := range st {
		keys = append(keys, k)
	}
	sort.Strings(keys)
	var sb strings.Builder
	for i, k := range keys {
		if i > 0 {
			sb.WriteByte(';')
		}
		sb.WriteString(k)
		sb.WriteByte('=')
		switch x := st[k].(type) {
		case *Box:
			if x == nil {
				sb.WriteString("box<nil>")
			} else {
				fmt.Fprintf(&sb, "box%v", x.Items)
			}
		case IntList:
			fmt.Fprintf(&sb, "list%v", []int(x))
		default:
			canon(&sb, x)
		}
	}
	return sb.String()
}

// FormatEvent is the one place where event strings are built (model and runtime).
func FormatEvent(kind byte, id, line, col, off int, text []byte, labels, state, glog string) string {
	return string(kind) + "|" + strconv.Itoa(id) + "|" + strconv.Itoa(off) + "|" + strconv.Itoa(line) + ":" + strconv.Itoa(col) +
		"|" + strconv.Quote(string(text)) + "|" + labels + "|" + state + "|" + glog
}

// NodeValue is what an action with R=0 returns.
func NodeValue(id int, text []byte, labels string) string {
	if len(labels) > 160 {
		// nested node values quote each other: without a cap their length doubles per nesting level
		labels = "#" + strconv.Itoa(LabelCoin(labels)) + ":" + strconv.Itoa(len(labels))
	}
	return "A" + strconv.Itoa(id) + "(" + strconv.Quote(string(text)) + "|" + labels + ")"
}

func traceOf(gs map[string]any) *Trace {
	if gs == nil {
		return nil
	}
	tr, _ := gs["mon"].(*Trace)
	return tr
}

func glogOf(gs map[string]any) string {
	s, _ := gs["glog"].(string)
	return s
}

func (tr *Trace) add(ev string) {
	if tr == nil {
		return
	}
	max := tr.Max
	if max == 0 {
		max = 100000
	}
	if len(tr.Events) >= max {
		tr.Dropped++
		return
	}
	tr.Events = append(tr.Events, ev)
}

func (tr *Trace) stress(id, off int) {
	if tr == nil || tr.Stress == 0 {
		return
	}
	switch Hash(id+11, off+tr.Stress) % 8 {
	case 0, 1:
		runtime.Gosched()
	case 2:
		time.Sleep(time.Duration(Hash(id, off)%40) * time.Microsecond)
	}
}

// InitialState is the store the InitState options of a case with Init=n set up.
func InitialState(n int) map[string]any {
	return map[string]any{"n": n, "box": &Box{Items: []int{n}}, "k" + strconv.Itoa(n%3): "init"}
}

// StateN reads the counter n.
func StateN(st map[string]any) int {
	n, _ := st["n"].(int)
	return n
}

func scribble(st map[string]any) {
	if st == nil {
		return
	}
	st["n"] = -1000
	st["zz"] = "scribble"
	if b, ok := st["box"].(*Box); ok && b != nil {
		b.Items = append(b.Items, -1)
	}
}

// ApplyStateOps performs the state ops of a state block in place.
func ApplyStateOps(st map[string]any, id, off, ops int) {
	if ops&32 != 0 {
		delete(st, "box") // the Cloner value leaves the store ...
	}
	if ops&64 != 0 {
		st["box"] = "plain" + strconv.Itoa(id) // ... or is replaced by a value that is not a Cloner
	}
	if ops&1 != 0 {
		st["n"] = StateN(st) + 1
	}
	if ops&2 != 0 {
		s, _ := st["s"].(string)
		st["s"] = s + strconv.Itoa(id) + ","
	}
	if ops&4 != 0 {
		b, _ := st["box"].(*Box)
		if b == nil {
			b = &Box{}
			st["box"] = b
		}
		b.Items = append(b.Items, id) // in place on purpose: only Clone protects older snapshots
	}
	if ops&8 != 0 {
		st["k"+strconv.Itoa(id%3)] = off
	}
	if ops&128 != 0 {
		all := IntList{id, id + 1, id + 2}
		st["all"] = all
		st["head"] = all[:1]
	}
	if ops&16 != 0 {
		delete(st, "k"+strconv.Itoa((id+1)%3))
	}
}

func (sp Spec) common(kind byte, gs, st map[string]any, id int, text []byte, line, col, off int, ls []L) (labels string, tr *Trace, idx int) {
	tr = traceOf(gs)
	idx = tr.Idx()
	labels = CanonLabels(ls)
	tr.add(FormatEvent(kind, id, line, col, off, text, labels, CanonState(st), glogOf(gs)))
	if tr != nil && tr.Stress > 0 && st != nil && len(tr.StateID) < 64 {
		// identity of the state map this block sees (shows recycling through the pool across goroutines)
		tr.StateID = append(tr.StateID, reflect.ValueOf(st).Pointer())
	}
	if sp.G && gs != nil {
		gs["glog"] = glogOf(gs) + string(kind) + strconv.Itoa(id) + ","
	}
	tr.stress(id, off)
	return labels, tr, idx
}

func (sp Spec) fault(gs map[string]any, id, off int) error {
	switch sp.PanicKind(id, off) {
	case 1:
		panic(&PanicErr{ID: id})
	case 2:
		panic("PS" + strconv.Itoa(id))
	case 3:
		panic(PanicVal{ID: id})
	}
	switch sp.ErrKind(id, off) {
	case 1:
		return &OwnErr{ID: id}
	case 2:
		return ErrSentinel
	case 3:
		return errors.Join(&OwnErr{ID: id}, ErrSentinel)
	case 4:
		return SliceErr{strconv.Itoa(id)}
	case 5:
		if f, ok := gs[NestedKey].(func() error); ok {
			return f()
		}
		return errors.New(NestedErrText)
	case 6:
		return &OwnErr{ID: id, Suf: "@" + strconv.Itoa(len(glogOf(gs)))}
	}
	return nil
}

// Act is the body of every generated action block.
func Act(gs, st map[string]any, id int, sp Spec, text []byte, line, col, off int, ls ...L) (any, error) {
	labels, _, _ := sp.common('A', gs, st, id, text, line, col, off, ls)
	if sp.Scr {
		scribble(st)
	}
	err := sp.fault(gs, id, off)
	var v any
	switch sp.R {
	case 0:
		v = NodeValue(id, text, labels)
	case 1:
		v = nil
	case 2:
		v = append([]byte{}, text...)
	case 3:
		if len(ls) > 0 {
			v = ls[0].V
		}
	case 4:
		v = id
	case 5:
		v = "glog:" + glogOf(gs) // what the globalStore holds (only ever this call's own entries)
	}
	return v, err
}

// Pred is the body of every generated &{} / !{} block.
func Pred(gs, st map[string]any, id int, sp Spec, text []byte, line, col, off int, ls ...L) (bool, error) {
	labels, _, idx := sp.common('P', gs, st, id, text, line, col, off, ls)
	key := LabelCoin(labels)
	n := 0
	if st != nil {
		n = StateN(st)
	}
	if sp.Scr {
		scribble(st)
	}
	err := sp.fault(gs, id, key)
	return sp.PredBool(id, key, idx, n), err
}

// State is the body of every generated #{} block.
func State(gs, st map[string]any, id int, sp Spec, text []byte, line, col, off int, ls ...L) error {
	labels, _, _ := sp.common('S', gs, st, id, text, line, col, off, ls)
	key := LabelCoin(labels)
	if st != nil {
		ApplyStateOps(st, id, key, sp.S)
	}
	return sp.fault(gs, id, key)
}

package mon

import "embed"

// Sources holds this package's own source files so the driver can copy the package verbatim
// into scratch batch modules (as vb/mon).
//
//go:embed *.go
var Sources embed.FS
